#!/bin/sh
# run every quick check on the unchanged tree, one after the other (regenerates all evidence files)
cd /verif
for p in C04 C05 C06 C07 C08 C09 C10 C11 C12 C13 C14 C15 C16 C17 C18 C19 C01 C02 C03; do echo "=== $p"; bin/check $p --tier quick 2>&1 | grep -E 'INCONCL|VIOL|OK:|BUILD|KNOWN' | cut -c1-200; echo "exit=$?"; done
