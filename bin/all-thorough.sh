#!/bin/sh
# run every thorough check on the unchanged tree without writing evidence (validation that each registered thorough command exits 0)
cd /verif
for p in ${*:-C04 C05 C06 C07 C08 C09 C10 C11 C12 C13 C14 C15 C16 C17 C18 C19 C01 C02 C03}; do echo "=== $p"; VERIF_NO_EVIDENCE=1 bin/check $p --tier thorough --no-replay 2>&1 | grep -E 'INCONCL|VIOL|OK:|BUILD|KNOWN|timeout|oom| failed ' | cut -c1-200; done
