"""Properties not claimed, with the reason (entries are ignored once a property is claimed in props.py)."""
NA = {
    # C09 is claimed since the MIR engine bin/mirgen exists (DESIGN 9.8); the entry documents why the Kani route was closed
    "C09": "both stepping functions draw from rand::rng() (OS-seeded thread-local ChaCha: Kani compiler ICE as soon as it is reachable) and par_next needs threads (rayon); neither can be encoded for CBMC",
}
