"""Properties not claimed, with the reason (entries are ignored once a property is claimed in props.py)."""
WIP = "check not built yet (work in progress; see DESIGN.md section 8)"
NA = {
    "C09": "both stepping functions draw from rand::rng() (OS-seeded thread-local ChaCha: Kani compiler ICE as soon as it is reachable) and par_next needs threads (rayon); neither can be encoded for CBMC",
    "C11": WIP, "C12": WIP, "C16": WIP, "C19": WIP,
}
