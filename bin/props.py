"""Per-property configuration of the Kani/CBMC checks (bounds, stubs, caps, unwindset rules)."""
import os, re

# default (time cap seconds, address-space cap GB) per tier
DEFAULT_CAPS = {"quick": (240, 12), "thorough": (1500, 14)}

PROPS = {}

PROPS["C04"] = {
    "features": ["c04"],
    "modules": ["c04_stack::"],
    "stubbing": False,
    "needs_rand_090": False,
    "functions": [
        "push::push_vm::stack::Stack::<i64>::{push,pop,pop2,pop3,top,top2,top3,discard,push_many,"
        "set_max_stack_size,max_stack_size,size,is_empty,is_full}",
        "<push::push_vm::stack::Stack<i64> as collectable::TryExtend<i64>>::try_extend",
    ],
    "bounds": {
        "quick": "one operation from an arbitrary pre-state: contents = L symbolic i64 (L = 0..=4, one harness per L), "
                 "max_stack_size an unconstrained usize (so a maximum lowered below the size is inside), every "
                 "argument symbolic (pushed value, discard count any usize, bulk insert of k<=3 symbolic items, "
                 "k symbolic for push_many; (L,k) in {(0,0),(0,2),(1,1),(2,3),(3,2)} for try_extend); loops unwound 8 with unwinding assertions",
        "thorough": "as quick, plus the full (L,k) grid L<=4,k<=3 for try_extend and all sequences of two "
                    "symbolically chosen operations (10 kinds) from every pre-state with L<=4",
    },
    "outside": "element types other than i64 (the code is generic and does not inspect T); stacks deeper than 4 before the "
               "operation (the operations only touch the top 3 elements and the length, see DESIGN C04); allocation failure",
    "assumptions": [
        "pre-states are built through the public API (push under the default unlimited maximum, then set_max_stack_size)",
        "contents are observed through pop() only (Vec::pop is trusted)",
        "rustc MIR -> Kani goto translation, CBMC 6.11 and cadical are trusted",
    ],
}


def caps(cfg, tier):
    return cfg.get("caps", DEFAULT_CAPS)[tier] if isinstance(cfg.get("caps"), dict) else DEFAULT_CAPS[tier]


def caps_for(cfg, tier, short):
    for pat, c in cfg.get("caps_by_harness", []):
        if re.search(pat, short):
            return c
    return caps(cfg, tier)


def unwind_override(cfg, short):
    for pat, n in cfg.get("unwind_by_harness", []):
        if re.search(pat, short):
            return n
    return None


def unwindset_rules(cfg, short):
    out = []
    for pat, rules in cfg.get("unwindset_by_harness", []):
        if re.search(pat, short):
            out += rules
    return out


def replay_cover(cfg, pid, r, unk, VERIF, WORK, ENV):
    """An UNSATISFIABLE property cover ("this outcome can occur") has no counterexample trace.  Its
    native confirmation is a search test named in the config that tries a grid of scripted random
    streams against the real code and fails if the outcome never occurs."""
    import subprocess
    tests = cfg.get("cover_replay_tests", {})
    rdir = os.path.join(VERIF, "replays", pid)
    os.makedirs(rdir, exist_ok=True)
    rpath = os.path.join(rdir, r["short"] + ".txt")
    test = None
    for pat, t in tests.items():
        if re.search(pat, r["short"]):
            test = t
    if not test:
        open(rpath, "w").write("no native search test registered for %s\n" % r["short"])
        return None, rpath, "no native search test"
    env = dict(ENV, CARGO_TARGET_DIR=os.path.join(WORK, "target-native"))
    rr = subprocess.run(["cargo", "test", "--offline", "--features", ",".join(cfg["features"]), "--test", "native_search", test, "--", "--exact"],
                        cwd=os.path.join(VERIF, "harness"), stdout=subprocess.PIPE, stderr=subprocess.STDOUT, text=True, env=env)
    failed = "test result: FAILED" in rr.stdout
    ran = "running 1 test" in rr.stdout
    with open(rpath, "w") as f:
        f.write("UNSATISFIABLE cover(s) in %s:\n" % r["harness"])
        for u in unk:
            f.write("  %s @ %s\n" % (u["desc"], u["where"]))
        f.write("native search test: cargo test --features %s --test native_search %s\n" % (",".join(cfg["features"]), test))
        f.write("\n".join(rr.stdout.splitlines()[-25:]) + "\n")
    return (ran and failed), rpath, "native search %s" % ("never reached the outcome" if failed else "passed/not run")
