"""Per-property configuration of the Kani/CBMC checks (bounds, stubs, caps, unwindset rules)."""
import os, re

# default (time cap seconds, address-space cap GB) per tier
DEFAULT_CAPS = {"quick": (360, 12), "thorough": (1500, 14)}

PROPS = {}

_PUSH_FUNCS = [
    "<push::instruction::{IntInstruction,FloatInstruction,BoolInstruction} as Instruction<S>>::perform for S = VState (harness state of three real Stacks + output buffer; the impls are generic over S)",
    "push::instruction::common::{pop,push_value,dup,swap,is_empty,stack_depth,flush}, int::{abs,negate,clamp}, printing::{Print,PrintLn}",
    "push::push_vm::stack::{Stack::*, HasStack::{not_full,with_push,with_replace}, PushOnto::{push_onto,replace_on}, StackPush, StackDiscard}",
    "push::error::{Error::{fatal,recoverable,is_fatal,state,error,map_inner_err}, MapInstructionError, IntoState}",
]
_PUSH_BOUNDS = ("STEP lemma: every int (34) / float (18) / bool (13) instruction incl. literals, one harness per (instruction, operand-stack depth): quick = 'exactly enough' operands for every instruction and 'one short' for a representative of every code shape "
                "(the regular expression quick_skip in bin/props.py lists the instances left to the thorough tier; thorough: every depth 0..=3, 0..=4 for Clamp, and a destination stack of depth 0); contents symbolic and full width (all i64 incl. "
                "extremes, all f64 bit patterns incl. NaN, infinities, signed zeros), every per-stack maximum a symbolic usize >= depth (so one-below-full and full, incl. "
                "maximum 0, are inside), 2 symbolic output bytes.  Arithmetic kernels in the quick tier: Multiply/Square full width; ProtectedDivide/Mod with operands in "
                "-128..=127 / -16..=16 plus i64::MIN, MIN+1, MAX; Power with (any base, exponent <= 2 incl. negative) and (base -3..=3, exponent 0..=70); float Multiply/ProtectedDivide "
                "with both operands from a 9-entry table of special values (thorough: full width, cap 25 min).  Print/PrintLn of i64/f64/bool with the operand from a concrete table "
                "(0, -1, 42, MIN, MAX; 1.5, inf, NaN, -0.0; true, false), PrintString/PrintSpace/PrintNewline/PrintPeriod.  Exec instructions (generic Pop/Push/Dup/IsEmpty/StackDepth, Noop, "
                "DupBlock, When, Unless, IfElse) against their documented action tables on exec stacks of 0..=2 distinct sentinel programs with symbolic conditions and maxima (Swap, Flush, deeper exec stacks next to a symbolic condition and "
                "one-element blocks were measured at > 25 min / 9 GB per harness under Kani and are decided on the MIR instead: bin/mirexec executes the MIR of ExecInstruction::perform, the twelve instruction bodies behind it "
                "and the HasStack / PushOnto / StackPush / StackDiscard / Error helpers for EVERY exec instruction on exec stacks of 0..=4 (quick) / 0..=6 (thorough) distinct opaque programs, 0..=2 symbolic conditions, 0..=1 integers and "
                "symbolic per-stack maxima, with the Stack methods as the contract C04 decides; outcome, stacks, carried state, error class and capacity are compared with the documented action tables on every path).  BLOCK lemma on a builder-made PushState: a block of 0/2/3 sentinels unfolds in order onto an exec stack holding one "
                "entry or is a fatal overflow that leaves the state unchanged (4 instances).  LOOP lemma (bin/mirloop, z3 on the MIR of run_to_completion): at most LIMIT steps for a symbolic "
                "LIMIT, front-to-back order, the performed entry removed, carried state after a recoverable error, a fatal error ends the run, exit only on empty exec / limit; exec depth 0..=3, "
                "<= 4 steps per path, the step itself fully nondeterministic.  Thorough only: DISPATCH through PushInstruction / PushProgram on a builder-made PushState for int add (also with a missing operand), bool and, exec noop, print space "
                "(float subtraction and input variables through the real HashMap exceeded 25 min and were dropped; the input lookup is decided on the MIR, see C16 / C19)")
_PUSH_OUTSIDE = ("whole-program runs as one query: the claim is compositional -- STEP lemma (Kani/CBMC) + LOOP lemma (symbolic execution of the MIR of run_to_completion with z3: at most LIMIT "
                 "calls, front-to-back order, performed entry removed, carried state after a recoverable error, fatal error ends the run, exit only on empty exec / limit; initial exec depth <= 3, "
                 "<= 4 calls per path, callees modelled as listed in the evidence) + BLOCK/DISPATCH (thorough tier); the induction joining them is on paper; stacks deeper than 3 before the step "
                 "(instructions read at most the top 3 elements plus size/is_full); Power outside the stated operand domain; formatting of arbitrary "
                 "symbolic numbers (print operands come from a table); pre-states that violate size <= max (not reachable: the invariant is the C03 lemma)")
for _pid, _a, _what in (("C01", "a01", "outcome, stacks and output equal the reference step"),
                        ("C02", "a02", "on every error the carried state equals the pre-state in every component"),
                        ("C03", "a03", "no panic, capacity invariant preserved, only overflow is fatal, step bound")):
    PROPS[_pid] = {
        "features": ["pushvm", _a],
        "markers": ["marker_" + _a],
        "modules": ["c01_stepgen::", "c01_print::", "c01_exec::", "c01_dispatch::", "c01_loop::"],
        "stubbing": True,
        "needs_rand_090": False,
        # thorough-only instances (vp check measured the full list at > 900 s on a loaded machine): the Kani exec-stack harnesses (every exec
        # instruction is decided on the MIR by bin/mirexec in both tiers), most of the print table, the second Power domain, two BLOCK
        # instances, bool Push on a deeper stack, and the 'one operand short' instance of instructions whose sibling with the same code
        # shape keeps its own (every 'exactly enough operands' instance stays)
        "quick_skip": "^(c01_exec_|c01_print_(bool_false|float_1_5|float_inf|float_negzero|int_0|int_42|int_max|int_neg1)$|"
                      "c01_println_(bool_true|float_1_5|float_inf|float_nan|int_0|int_42|int_max|int_min)$|c01_int_power_smallbase_|c01_block_(0|2_fit)$|c01_bool_push_d2$|"
                      "c01_int_(abs|dec|inc|is_even|is_negative|is_odd|is_positive|is_zero|negate|flush)_d0$|c01_int_(subtract|max|min|not_equal|less_than_equal|greater_than|greater_than_equal)_d1$|"
                      "c01_float_(not_equal|less_than_or_equal|greater_than|greater_than_or_equal)_d1$|c01_float_flush_d0$|c01_bool_(xor|implies)_d1$|c01_bool_(flush|not)_d0$)",
        # LOOP lemma labels (bin/mirloop) that belong to this property
        "mirloop": {"L1": ["C01", "C03"], "L2": ["C01", "C02"], "L4": ["C03"], "L5": ["C01", "C03"]},
        # STEP lemma for the exec-stack instructions on the MIR (bin/mirexec): exec depth bound per tier, labels per property
        "mirexec": {"quick": 4, "thorough": 6, "labels": {"E1": ["C01"], "E2": ["C02"], "E3": ["C03"]}},
        "functions": _PUSH_FUNCS + ["MIR of <PushState as State>::run_to_completion, State::perform, TryRecover::try_recover + closure (bin/mirloop, z3)",
                                    "MIR of <ExecInstruction as Instruction<S>>::perform, <{When,Unless,IfElse,DupBlock,Noop} as Instruction<S>>::perform, <{Pop,PushValue,Dup,Swap,IsEmpty,StackDepth,Flush}<PushProgram> as Instruction<S>>::perform, "
                                    "HasStack::{with_push,not_full}, PushOnto::push_onto, StackPush::with_stack_push, StackDiscard::with_stack_discard, Error::{fatal,recoverable,map_inner_err}, MapInstructionError::map_err_into (bin/mirexec, z3)"],
        "bounds": {"quick": _PUSH_BOUNDS + "; assertion set: " + _what, "thorough": _PUSH_BOUNDS + "; assertion set: " + _what},
        "outside": _PUSH_OUTSIDE,
        "assumptions": ["pre-states satisfy size <= max on every stack (inductive invariant, itself asserted as post-condition under C03)",
                        "STEP runs on the harness state type VState / EState (real Stacks; the instruction impls are generic over the state type)",
                        "exec harnesses stub <PushProgram as Clone>::clone with a model that rebuilds the sentinel of the same id (derived clone of a heap-read program: > 11 GB)",
                        "bin/mirexec: Stack<T> methods are contract models (the all-or-nothing LIFO contract decided for the real type under C04); exec entries are opaque programs whose clone is an equal program; error-type conversions keep the StackError kind",
                        "in the C02 / C03 builds the C01 conditions are assumed (states consistent with C01); vacuity is excluded by a reachability witness per harness",
                        "when operands are missing AND the destination stack is full, either documented error (recoverable underflow / fatal overflow) is accepted"],
        # exec harnesses: a PushProgram read back from the heap loses its concrete discriminant in CBMC, so its
        # drop glue / clone explore every variant recursively.  The recursion is cut at the nesting depth the
        # harness builds (flat sentinels: 1, one-element blocks: 2); unwinding assertions check the cut.
        "unwind_by_harness": [("^c01_(t_)?exec_", 6)],
        "unwindset_by_harness": [
            ("^c01_t_exec_.*_nested$", [(r"drop_glueNtNtNt\w+_4push7push_vm7program11PushProgramE", 2), (r"^_RNvX\w*7programNt\w+11PushProgramNt\w+5clone5Clone5clone", 2),
                                        (r"drop_glueSNtNtNt\w+_4push7push_vm7program11PushProgramE", 2)]),
            ("^c01_(t_dispatch|block)_", [(r"drop_glueNtNtNt\w+_4push7push_vm7program11PushProgramE", 1), (r"^_RNvX\w*7programNt\w+11PushProgramNt\w+5clone5Clone5clone", 1),
                                (r"drop_glueSNtNtNt\w+_4push7push_vm7program11PushProgramE", 1)]),
            ("^c01_exec_", [(r"drop_glueNtNtNt\w+_4push7push_vm7program11PushProgramE", 1), (r"^_RNvX\w*7programNt\w+11PushProgramNt\w+5clone5Clone5clone", 1),
                            (r"drop_glueSNtNtNt\w+_4push7push_vm7program11PushProgramE", 1)]),
        ],
        "caps_by_harness": [("power", (600, 12)), ("^c01_t_exec_", (1500, 14)), ("^c01_t_dispatch_", (1500, 14))],
        # exec harnesses with >= 2 programs need 4-8 GB each: at most 4 side by side
        "weight_by_harness": [("^c01_t_exec_", 6), ("^c01_t_dispatch_", 4), ("_swap_d[23]$", 2), ("^c01_exec_(if_else_e2|push_empty)", 2)],
    }

# C02 "the inputs": the input-variable instruction goes through PushState::with_input; on the MIR (bin/mirinput) the step it performs may succeed or
# fail and the state handed back -- with the result or with the error -- must still hold every declared input (N5)
PROPS["C02"]["mirinput"] = {"quick": 2, "thorough": 3}
PROPS["C02"]["mirinput_labels"] = ["N5"]
PROPS["C02"]["functions"] = PROPS["C02"]["functions"] + ["MIR of PushState::with_input (+ closures) and the generated with_<type>_input / build (bin/mirinput, z3): inputs kept after a successful and after a FAILED input instruction"]

PROPS["C04"] = {
    "features": ["c04"],
    "modules": ["c04_stack::"],
    "stubbing": False,
    "needs_rand_090": False,
    "functions": [
        "push::push_vm::stack::Stack::<i64>::{push,pop,pop2,pop3,top,top2,top3,discard,push_many,"
        "set_max_stack_size,max_stack_size,size,is_empty,is_full}",
        "<push::push_vm::stack::Stack<i64> as collectable::TryExtend<i64>>::try_extend",
    ],
    "bounds": {
        "quick": "one operation from an arbitrary pre-state: contents = L symbolic i64 (L = 0..=4, one harness per L), "
                 "max_stack_size an unconstrained usize (so a maximum lowered below the size is inside), every "
                 "argument symbolic (pushed value, discard count any usize, bulk insert of k<=3 symbolic items, "
                 "k symbolic for push_many; (L,k) in {(0,0),(0,2),(1,1),(2,3),(3,2)} for try_extend); loops unwound 8 with unwinding assertions",
        "thorough": "as quick, plus the full (L,k) grid L<=4, k<=3 for try_extend and push_many",
    },
    "outside": "element types other than i64 (the code is generic and does not inspect T); stacks deeper than 4 before the "
               "operation (the operations only touch the top 3 elements and the length, see DESIGN C04); allocation failure",
    "assumptions": [
        "pre-states are built through the public API (push under the default unlimited maximum, then set_max_stack_size)",
        "contents are observed through pop() only (Vec::pop is trusted)",
        "rustc MIR -> Kani goto translation, CBMC 6.11 and cadical are trusted",
    ],
}

PROPS["C15"] = {
    "features": ["c15"],
    "modules": ["c15_order::"],
    "needs_rand_090": False,
    "has_thorough_harnesses": True,
    "caps_by_harness": [("^c15_t_from_", (1200, 12))],
    "weight_by_harness": [("^c15_t_from_", 2)],
    "functions": [
        "ec_core::test_results::{Score<i64>,Error<i64>}::{cmp,partial_cmp,eq,lt,le,gt,ge}",
        "<ec_core::test_results::TestResult<i64,i64> as PartialOrd>::partial_cmp / PartialEq::eq",
        "<ec_core::test_results::TestResults<{Score,Error}<i64>> as {Ord,PartialOrd}>::{cmp,partial_cmp}, len, is_empty",
        "<TestResults<R> as From<I>>::from for R in {Score<i64>,Error<i64>}, I in {Copied<slice::Iter<i64>>, Vec<i64>}",
        "<ec_core::individual::ec::EcIndividual<u8,TestResults<_>> as {Ord,PartialOrd}>::{cmp,partial_cmp}, genome, test_results",
        "<ec_core::individual::ec::IndividualGenerator<_,FnScorer<_>> as Distribution<_>>::sample, WithScorer::with_scorer",
        "<ec_core::operator::genome_scorer::GenomeScorer<_,_> as Operator<&P>>::apply",
    ],
    "bounds": {
        "quick": "all i64 triples (full width) for Score/Error/TestResult; result vectors of lengths (0,0),(0,2),(1,1),(3,1),(3,3) with "
                 "arbitrary i64 entries, arbitrary totals and genomes for the ordering of TestResults/EcIndividual; "
                 "TestResults::from over every i64 vector of length 0..=4 whose left-to-right partial sums fit in i64, and over vectors of 9 and 17 entries from the i16 range "
                 "(lengths just past the block sizes of a chunked summation: total == sum, per-case results in order); "
                 "IndividualGenerator/GenomeScorer for every 64-bit generated genome and both maker outcomes",
        "thorough": "as quick plus TestResults::from over vectors of 33 and 65 entries from the i16 range",
    },
    "outside": "result vectors longer than 4 with full-width entries, longer than 17 (quick) / 65 (thorough) with i16 entries; orderings of result vectors longer than 3; sums that overflow i64 (panic in dev, wrap in release; stated as outside the property); payload types other than i64",
    "assumptions": [
        "TestResults::from: the mathematical sum (and every left-to-right partial sum) fits the payload type",
        "scorer and genome generator are pure probe closures supplied by the harness",
    ],
}

PROPS["C05"] = {
    "features": [],
    "modules": [],
    "no_kani": True,
    "needs_rand_090": False,
    "mirparse": {"quick": 3, "thorough": 4},
    "functions": ["MIR of <Vec<PushProgram> as From<Plushy>>::from, PushProgram::parse_from_plushy (recursive), <PushInstruction as NumOpens>::num_opens, "
                  "<ExecInstruction as NumOpens>::num_opens and every per-instruction num_opens it dispatches to (list in the evidence)"],
    "bounds": {
        "quick": "genomes of 0..=3 genes, every gene of SYMBOLIC kind (close marker / instruction; instruction family; which of the exec instructions except the boxed Push literal): "
                 "13 feasible kinds per gene, 2197 paths for length 3; every branch on a gene's discriminant is a z3 feasibility query; the union of the path conditions is checked to be "
                 "complete; on every path the produced tree is compared with an iterative reference parser",
        "thorough": "as quick with genomes of up to 4 genes (28561 paths)",
    },
    "outside": "genomes longer than 4 genes (the parser treats every gene alike and recursion depth is bounded by the genome length; not proved for longer genomes); "
               "the gene iterator, Vec::new/push and Range iteration are models, not executed code; ExecInstruction::Push literals",
    "assumptions": ["rustc's MIR (nightly, -Zunpretty=mir) is the semantics of the source; the Python MIR interpreter bin/mirparse implements the statement kinds it meets and stops "
                    "(exit 2) on anything else", "z3 4.x decides the path feasibility queries"],
    "manifest": {"technique": "symbolic execution of the compiler's MIR (regenerated from /repo on every run) with z3 deciding every branch on the symbolic gene kinds; counterexamples replayed natively"},
}

PROPS["C06"] = {
    "features": ["c06"],
    "modules": ["c06_select::"],
    "functions": [
        "<ec_core::operator::selector::{best::Best,worst::Worst,random::Random} as Selector<P>>::select for P = [i32;N], Vec<EcIndividual<u8,TestResults<Score<i64>>>>",
        "<tournament::Tournament as Selector<[i32;N]>>::select (rand choose_multiple), Tournament::{new,binary}",
        "<lexicase::Lexicase as Selector<Vec<EcIndividual<..>>>>::select for at most one configured case",
        "Weighted / WeightedPair chains and DynWeighted over real selectors; Select<&S>; &dyn DynSelector, Box<dyn DynSelector + Send + Sync>",
    ],
    "bounds": {
        "quick": "every random stream; populations [i32;N] N=0..=4 and Vec<EcIndividual> N=0..=3 with symbolic values (ties and duplicates included); "
                 "tournament (n,k) in 11 concrete pairs with k <= n+1 <= 5; lexicase with 0 or 1 configured case over 0..=2 individuals each "
                 "holding a symbolic number (0..=2) of results; weighted chain Best/Worst/Random with symbolic weights 0..=3 on a 3-element and on "
                 "an empty population; DynWeighted (Best, Worst, Random) weights 0..=2, streams = 4 symbolic words then all-ones; "
                 "identity by std::ptr::eq against every element. Lexicase with >= 2 cases (all results present): MIR engine bin/mirlex (z3), populations x cases up to 4x2 / 3x3, symbolic results, "
                 "every case order and final order: Ok with a member of the population iff the population is non-empty, Err(EmptyPopulation) otherwise (X5), and the member survives the filtering (X1); individuals holding FEWER results than cases are configured ((1,2 of 1),(2,2 of 1),(3,2 of 1),(2,3 of 2)): Err(MissingTestCase{configured count, index}) exactly when a case without results has to be consulted while two or more candidates are left, Ok with the single survivor otherwise (X9). Tournament additionally on the MIR (bin/mirtour, z3): every population size N <= 5 (thorough 6) and tournament size K in 1..=N+1, symbolic values and identities, "
                 "the sampler replaced by its contract (every draw outcome forked): Err(TournamentSizeError(K, N)) iff K > N, otherwise Ok with a member, no panic on any path (T1)",
        "thorough": "as quick plus tournament (3,1),(3,4),(4,1),(4,4),(5,2),(5,3) and lexicase (2 individuals,0 cases),(3 individuals,1 case); MIR engine also 4x3 and 3x4",
    },
    "mirlex": True,
    "mirlex_labels": ["X1", "X5", "X9"],
    # tournaments on the MIR: T1 = error iff K > N (with K, N), otherwise Ok with a member, never a panic; populations of up to 5 / 6
    "mirtour": {"quick": 5, "thorough": 6},
    "mirtour_labels": ["T1"],
    "outside": "lexicase with individuals whose result vectors have DIFFERENT lengths among each other (missing results are decided for <= 1 case under Kani and, on the MIR, for populations whose individuals all hold fewer results than cases are configured: X9); populations larger than 5 (Kani) / 6 (MIR engines); "
               "population types other than arrays and Vec",
    "assumptions": ["rand 0.9.0 choose / choose_multiple / choose_weighted / shuffle run unmodified on the symbolic generator",
                    "bin/mirlex: rustc MIR is the semantics of the source; callee models as listed in the evidence (shuffle = every permutation, Ord on results = z3 integers); unknown statements / callees are inconclusive (exit 2)"],
    # lexicase: only rand's calculate_bound_u32 (inside shuffle) needs 13 iterations; everything else 6
    "unwind_by_harness": [("lexicase", 6)],
    "unwindset_by_harness": [("lexicase", [("calculate_bound_u32", 13)])],
}

PROPS["C07"] = {
    "features": ["c07"],
    "modules": ["c07_pressure::"],
    "functions": [
        "<ec_core::operator::selector::{best::Best,worst::Worst} as Selector<P>>::select for [i32;N] and Vec<EcIndividual<u8,TestResults<{Score,Error}<i64>>>>",
        "<ec_core::individual::ec::EcIndividual as Ord>::cmp, <TestResults as Ord>::cmp, Error's reversed Ord",
        "<tournament::Tournament as Selector<[LI;N]>>::select with rand 0.9.0 IndexedRandom::choose_multiple + Iterator::max (LI = harness individual whose Ord logs the ids compared)",
        "MIR engine bin/mirtour (z3): <Tournament as Selector<P>>::select executed from MIR with choose_multiple replaced by its contract and Iterator::max by a symbolic choice of the winning element",
    ],
    "mirtour": {"quick": 5, "thorough": 6},
    "bounds": {
        "quick": "every random stream; Best/Worst maximal/minimal over populations of 1..=4 symbolic values (i32, and individuals with symbolic i64 totals in "
                 "both polarities, ties included); tournament (n,k) in {(1,1),(2,1),(2,2),(3,1),(3,2),(3,3),(4,2),(4,3)} with symbolic u8 values: the set of "
                 "individuals compared has exactly k distinct members, the winner is its best, hence beats >= k-1 others, k = n is best selection; "
                 "a cover per k-subset class that it can be the sampled set; sampled set independent of the values for (3,2),(4,2) on a shared symbolic tape. MIR engine (z3): populations of N <= 4 individuals with SYMBOLIC unbounded order values and SYMBOLIC identities (ties and equal duplicates), every K in 1..=N+1, every outcome of the without-replacement draw (every subset; every order of it for N <= 4): K > N <=> TournamentSizeError(K, N) and no panic; the winner is at least as good as K-1 other members; K = N returns a maximal individual; for N <= 4 and each of the 1/3/13/75 tie patterns the winner's value is distributed exactly as the best of a uniformly random K-subset (exact rationals, every modelled draw outcome equally likely; K = 1: uniform choice)",
        "thorough": "as quick plus (4,1),(4,4),(5,2),(5,3),(5,4) and independence for (4,3),(3,1). MIR engine (z3): populations of N <= 5 individuals with SYMBOLIC unbounded order values and SYMBOLIC identities (ties and equal duplicates), every K in 1..=N+1, every outcome of the without-replacement draw (every subset; every order of it for N <= 4): K > N <=> TournamentSizeError(K, N) and no panic; the winner is at least as good as K-1 other members; K = N returns a maximal individual; for N <= 4 and each of the 1/3/13/75 tie patterns the winner's value is distributed exactly as the best of a uniformly random K-subset (exact rationals, every modelled draw outcome equally likely; K = 1: uniform choice)",
    },
    "outside": "'every k-subset equally likely' is REDUCED, not decided: the solver shows the repository hands the whole population and k to rand's "
               "without-replacement sampler and takes the max, and that every k-subset can occur; equal likelihood is rand's documented contract "
               "(a biased full-support sampler substituted inside rand would not be caught); GIVEN that contract the MIR engine decides the winner's distribution exactly (N <= 4). Populations larger than 5.",
    "assumptions": ["rand 0.9.0 choose_multiple samples k-subsets uniformly (documented contract, not re-proved)",
                    "bin/mirtour: rustc MIR (nightly, -Zunpretty=mir) is the semantics of the source; callee models (not executed): IndexedRandom::choose_multiple = its contract (a distinct positions, "
                    "every a-subset equally likely, any order), Iterator::max/min = last maximal / first minimal element as in std, equality of individuals = identity with equal identity => equal order value, "
                    "Population::size, AsRef<[I]>, NonZero -> usize, TournamentSizeError::new, Option::ok_or_else; an unknown statement or callee makes the run inconclusive (exit 2), never a pass"],
    "cover_replay_tests": {"tournament": "c07::tournament_subsets_reachable"},
}

PROPS["C08"] = {
    "features": [],
    "modules": [],
    "no_kani": True,
    "needs_rand_090": False,
    "mirlex": True,
    "mirlex_labels": ["X1", "X2", "X3", "X4", "X5", "X7", "X8"],
    "functions": ["MIR of <ec_core::operator::selector::lexicase::Lexicase as Selector<P>>::select"],
    "bounds": {
        "quick": "populations x cases (n,m) in {(0,0),(0,2),(1,0),(1,2),(2,1),(2,2),(3,2),(2,3),(3,3),(4,2)}, every result a SYMBOLIC unbounded integer (ties, duplicates and every relative "
                 "order decided by z3 at the three-way comparison), both polarities (scores / errors), every case order and every final order of the survivors (the shuffle models fork "
                 "over all permutations): returned individual in REF(sigma), candidate set before the final choice == REF(sigma), not Pareto-dominated, Ok iff non-empty; every survivor can be the final pick (X4); every fork carries its probability (shuffle 1/k!, random_range 1/len) and on four concrete result matrices "
                 "per size (specialists, all tied, one dominant, staircase; n*m <= 9) the exact law of the winner equals 'fraction of case orders survived, shared equally among the survivors' (X7)",
        "thorough": "as quick plus (4,3) and (3,4); both tiers also run (2 individuals, 1 case configured, 2 results held), (3,1,2) and (2,2,3): a selector configured with FEWER cases than the individuals hold "
                    "results considers the configured cases only (X8) and filters / chooses as prescribed on them",
    },
    "outside": "uniformity of SliceRandom::shuffle / random_range is rand's documented contract (modelled as equally likely outcomes); GIVEN it, the probability law of the statement is decided on four concrete "
               "matrices per size (X7) and follows from X2 + X4 for symbolic matrices; populations of more than 4 individuals / more than 3 cases; individuals with missing results (decided for <= 1 case under C06); "
               "std's Vec / slice / Option / Result helpers are models, not executed code",
    "assumptions": ["rustc's MIR (nightly, -Zunpretty=mir) is the semantics of the source; the Python MIR interpreter stops (exit 2) on any statement or callee it has no rule for",
                    "Ord on the result type is the integer order (scores) or its reverse (errors): Score/Error's Ord is decided under C15"],
    "manifest": {"technique": "symbolic execution of the compiler's MIR (regenerated from /repo on every run) with z3 deciding every comparison of the symbolic results and proving the survivor-set equalities; counterexamples replayed natively"},
}

PROPS["C09"] = {
    "features": [],
    "modules": [],
    "no_kani": True,
    "needs_rand_090": False,
    "mirgen": {"quick": (4, 3), "thorough": (6, 4)},
    "functions": ["MIR of ec_core::generation::Generation::serial_next, its polonius closure and the child-making closure inside it",
                  "MIR of ec_core::generation::Generation::par_next, its polonius closure and the child-making closure inside it"],
    "bounds": {
        "quick": "population size n a z3 integer 0..=4 (serial) / 0..=3 (parallel); the child maker is the environment: every call may fail (z3 Boolean per call) and logs what it is shown; "
                 "serial: std's repeat_n/map/collect::<Result> in order with stop at the first error; parallel: rayon's repeatn/map_init/collect::<Result> BY ITS DOCUMENTED CONTRACT - every "
                 "execution order of the items, every partition of the items over workers (one init() per worker), stop-or-continue after an error, any one of the errors reported. Per path: "
                 "Ok iff no call failed; then exactly n children, child i from item i, replace the population and exactly n calls were made; Err is a failed call's error and the population "
                 "field was never assigned; every call was shown the previous population while the Generation still held it; every call received a live handle from rand::rng() obtained during the step",
        "thorough": "as quick with n <= 6 (serial) / n <= 4 (parallel)",
    },
    "outside": "thread interleavings INSIDE rayon (work stealing, splitting, the collect machinery): the parallel clause is decided at the level of rayon's contract only - a schedule-dependent bug inside "
               "rayon, or in a child maker with interior state, is not covered; that `rand::rng()` handles on different threads are independently seeded generators and that words drawn from one handle "
               "are independent is rand's contract (the check decides that each child gets such a live handle, not a clone / reseeded copy); FromIterator / FromParallelIterator of the population type "
               "(modelled as 'the children in order'); population sizes above the bound",
    "assumptions": ["rustc's MIR (nightly, -Zunpretty=mir) is the semantics of the source; the Python MIR interpreter stops (exit 2) on any statement or callee it has no rule for",
                    "callee models (contracts, not executed): rand::rng(), polonius-the-crab's polonius / Try / Residual / Dependent helpers (by their definitions), std repeat_n + map + collect::<Result<P,_>>, "
                    "rayon repeatn + map_init + collect::<Result<P,_>> (documented contract), Population::size; the child maker is fully nondeterministic"],
    "manifest": {"technique": "symbolic execution of the compiler's MIR (regenerated from /repo on every run) of both stepping functions against a nondeterministic child maker and contract models of std / rayon / polonius; "
                              "z3 decides every branch on the symbolic population size and failure pattern and proves the per-path assertions; counterexamples replayed natively"},
}

PROPS["C10"] = {
    "features": ["c10"],
    "modules": ["c10_xo::"],
    # on the MIR: D2 errors / no panic / position-wise parental child, D3 one contiguous segment for every draw value / one coin per position, D4 every segment / mask occurs;
    # soft = an interpreter without a rule for a new code shape is skipped here (the Kani harnesses decide the same functions)
    "mirxo": {"quick": 4, "thorough": 6, "labels": ["D2", "D3", "D4"], "soft": True},
    "functions": [
        "MIR engine bin/mirxo (z3): <TwoPointXo as Recombinator<[Vec<T>;2] | [G;2] | (Vec<T>,Vec<T>) | (G,G)>>::recombine, <UniformXo as Recombinator<..same four..>>::recombine and its closure, executed from MIR on parents of 0..=4 (quick) / 0..=6 (thorough) genes with SYMBOLIC draws",
        "<ec_linear::recombinator::two_point_xo::TwoPointXo as Recombinator<[Vec<u8>;2]>>::recombine, ... <(Vec<u8>,Vec<u8>)>, <[Bitstring;2]>, <(Bitstring,Bitstring)>",
        "<ec_linear::recombinator::uniform_xo::UniformXo as Recombinator<_>>::recombine for the same four parent shapes",
        "<ec_linear::genome::bitstring::Bitstring as Crossover>::{crossover_gene,crossover_segment}, Linear::{size,gene_mut}",
        "rand 0.9.0: Rng::random_range(usize range), Rng::random::<bool>() on the symbolic generator",
    ],
    "bounds": {
        "quick": "every random stream (SymRng: each draw a fresh symbolic word); tagged parents of equal length L=0..=4 (two-point: Vec array flavour and "
                 "Bitstring array flavour for every L, tuple flavours for two L; uniform: all four flavours, L=0..=4); unequal lengths "
                 "(0,1),(1,0),(2,3),(3,1); exchange primitives on bitstrings of lengths (0,0),(1,1),(2,3),(3,2),(3,3) with symbolic "
                 "contents, index any usize, range start/end any usize pair; 9 segment-occurs covers per two-point instance",
        "thorough": "as quick plus the remaining unequal length pairs up to 3 and exchange primitives for lengths (0,2),(2,0),(1,3),(2,2),(4,4),(4,2)",
    },
    "outside": "genomes longer than 4; gene types other than u8/bool; 'equally likely' segments (only occurrence of every segment is decided, the "
               "distribution over segments is not part of C10); reversed ranges start > end are only required not to panic and not to change anything",
    "assumptions": [
        "rand 0.9.0 sampling algorithms run unmodified on the symbolic generator",
        "uniform crossover's 'every position independently' is checked in the pinned form 'position i is decided by the top bit of its own random word i, in order' (rand 0.9.0 bool sampling): an implementation that spends the stream differently but still independently (e.g. 64 positions per word with a fresh word every 64 positions) would be REPORTED and has to be judged by hand; the pinned form is what lets a bounded check (L <= 4) see dependence that only shows beyond 64 positions (seed C10-c)"],
    "cover_replay_tests": {"two_point": "c10::two_point_segments_reachable"},
}

_MUT_FUNCS = [
    "<ec_linear::mutator::with_rate::WithRate as Mutator<Vec<bool>>>::mutate and <WithRate as Mutator<Bitstring>>::mutate (Linear flavour)",
    "<ec_linear::mutator::with_one_over_length::WithOneOverLength as Mutator<_>>::mutate (both flavours)",
    "<ec_linear::mutator::umad::Umad<G> as Mutator<Vector<u8>>>::mutate, Umad::{new,new_without_empty,new_with_empty_rate}",
    "ec_linear::genome::bitstring::{Bitstring::random, Bitstring::random_with_probability, BoolGenerator::sample}",
    "<push::genome::plushy::GeneGenerator<T> as Distribution<PushGene>>::sample, GeneGenerator::with_uniform_close_probability, ConvertToGeneGenerator",
    "rand 0.9.0 StandardUniform<f32>, StandardUniform<bool>, Bernoulli (random_bool) on the symbolic generator",
]
PROPS["C11"] = {
    "features": ["c11"],
    "modules": ["c11_mutation::"],
    "name_filter": "^c11_",
    "unwind_by_harness": [("umad_l1", 4), ("umad_l2", 5)],
    "caps_by_harness": [("_t_umad_", (1500, 14))],
    "weight_by_harness": [("_t_umad_", 2)],
    "functions": _MUT_FUNCS[:3] + ["MIR engine bin/mirumad (z3): Umad::{new,new_with_empty_rate,new_without_empty}, <Umad as Mutator<G>>::mutate, its closures, Umad::new_gene"],
    "mirumad": {"quick": 4, "thorough": 6, "labels": ["U1", "U2", "U3", "U5"]},
    "bounds": {
        "quick": "every random stream; bit-flip (Vec<bool> and Bitstring flavours) on genomes of length 0,1,3 / 0,2,4 with symbolic genes and a symbolic f32 rate in [0,2]: "
                 "length preserved, one draw per gene, rate 0 identity, rate >= 1 everything flipped; UMAD on Vector<u8> with position-tagged parents of length 0,1,2, "
                 "a probe gene generator (tags 100,101,.. in generation order) and rates from {0,1/2,1} (9 instances incl. the three empty-genome modes): surviving parent genes in order, "
                 "new genes are generator outputs in order, at most one insertion per parent position, empty parent <= 1 gene (0 when disabled), degenerate-rate clauses. MIR engine (z3, nonlinear real arithmetic): Umad::mutate and the three constructors executed from MIR on parents of L <= 4 tagged genes with SYMBOLIC REAL rates a, d, e in [0,1] (random_bool(p) = fork weighted p / 1-p, path probability = product): child structure (U1), the exact sequence of draws (U3), the probability of EVERY possible child equals the prescribed law for all rates (U2: each gene deleted with probability d and followed by a new gene with probability a(1-d), independently; empty parent: e, = a for `new`, none without empty rate), and expected size preserved under d(1+a) = a (U4)",
        "thorough": "as quick plus bit-flip lengths 2,4 / 1,3,6 and UMAD on one-gene parents with (add,del) in {(1/2,1/2),(0,0),(1,0),(1/2,1)}. MIR engine (z3, nonlinear real arithmetic): Umad::mutate and the three constructors executed from MIR on parents of L <= 6 tagged genes with SYMBOLIC REAL rates a, d, e in [0,1] (random_bool(p) = fork weighted p / 1-p, path probability = product): child structure (U1), the exact sequence of draws (U3), the probability of EVERY possible child equals the prescribed law for all rates (U2: each gene deleted with probability d and followed by a new gene with probability a(1-d), independently; empty parent: e, = a for `new`, none without empty rate), and expected size preserved under d(1+a) = a (U4)",
    },
    "outside": "UMAD on parents longer than 1 UNDER KANI (measured: 14 GB exhausted after 16 min for 2 genes) - decided on the MIR instead, where Rng::random_bool, Distribution::sample and the std iterator adaptors are contract models; UMAD on Plushy / Bitstring genomes (same generic code, other element types); bit vectors longer than 6",
    "assumptions": ["rand 0.9.0 sampling algorithms run unmodified on the symbolic generator",
                    "bin/mirumad: rustc MIR is the semantics of the source; callee models: Rng::random_bool(p) = true with probability p, Distribution::sample = a fresh gene, into_iter/flat_map/flatten/collect = the closure's MIR once per gene in order, bool::then/then_some, Option::into_iter().collect(), Linear::size; unknown statements / callees are inconclusive (exit 2)"],
}
PROPS["C12"] = {
    "features": ["c11", "c10"],
    "modules": ["c11_mutation::", "c10_xo::"],
    "name_filter": "^(c12_|c10_uniform_)",      # uniform crossover's coin per position: the C10 harnesses decide it, they run here too
    "unwind_by_harness": [("umad_l1", 4), ("umad_l2", 5)],
    "caps_by_harness": [("_t_umad_", (1500, 14))],
    "weight_by_harness": [("_t_umad_", 2)],
    "functions": _MUT_FUNCS + ["MIR engine bin/mirumad (z3): Umad::{new,new_with_empty_rate,new_without_empty}, <Umad as Mutator<G>>::mutate, its closures, Umad::new_gene"],
    "mirumad": {"quick": 4, "thorough": 6, "labels": ["U2", "U3", "U4"]},
    "mirxo": {"quick": 4, "thorough": 6, "labels": ["D3", "D5"], "soft": True},      # uniform crossover: one fair coin per position decides that position
    "bounds": {
        "quick": "measure characterisation, for ALL random words and a SYMBOLIC rate: WithRate flips gene i iff (w_i >> 8) < ceil(rate*2^24) (its own word only; probability within 2^-24 of the rate), "
                 "lengths 0..=4; WithOneOverLength the same with rate 1/L and L*threshold = 2^24 +- L (one expected flip); UMAD child == reference built from the same words (add coin, delete coin, "
                 "delete-new coin only after an addition, generator call only for surviving additions: new genes are subject to deletion with the deletion rate) on empty parents (quick) and "
                 "one-gene parents with rates from {0,1/2,1} (thorough); coin(p) = word < floor(p*2^64), p = 1 without a draw; uniform crossover: the c10_uniform_* harnesses (run by this check too): gene i comes from the parent chosen by the top bit of random word i, lengths 0..=4, all four parent shapes; Bitstring::random "
                 "bit i = top bit of word i; random_with_probability / BoolGenerator = coin(p) with symbolic p; Plushy gene: close iff (w >> 8) < ceil(p*2^24) else exactly one sample of the "
                 "instruction distribution, default p = 1/(n+1) for a symbolic n <= 2^24. MIR engine (z3, nonlinear real arithmetic): Umad::mutate and the three constructors executed from MIR on parents of L <= 4 tagged genes with SYMBOLIC REAL rates a, d, e in [0,1] (random_bool(p) = fork weighted p / 1-p, path probability = product): child structure (U1), the exact sequence of draws (U3), the probability of EVERY possible child equals the prescribed law for all rates (U2: each gene deleted with probability d and followed by a new gene with probability a(1-d), independently; empty parent: e, = a for `new`, none without empty rate), and expected size preserved under d(1+a) = a (U4)",
        "thorough": "as quick plus the thorough bit-flip lengths and UMAD on one-gene parents, 4 rate pairs. MIR engine (z3, nonlinear real arithmetic): Umad::mutate and the three constructors executed from MIR on parents of L <= 6 tagged genes with SYMBOLIC REAL rates a, d, e in [0,1] (random_bool(p) = fork weighted p / 1-p, path probability = product): child structure (U1), the exact sequence of draws (U3), the probability of EVERY possible child equals the prescribed law for all rates (U2: each gene deleted with probability d and followed by a new gene with probability a(1-d), independently; empty parent: e, = a for `new`, none without empty rate), and expected size preserved under d(1+a) = a (U4)",
    },
    "outside": "UMAD with parents longer than 1 gene or symbolic rates under Kani (solver budget) - decided on the MIR instead, incl. 'expected size preserved when deletion = addition/(1+addition)' (U4); that random_bool(p) is true with probability exactly p is rand's contract at the MIR level (the Kani harnesses tie it to the 64-bit word); "
               "the definition of a uniform variate is rand 0.9.0's StandardUniform/Bernoulli algorithms (version guard on Cargo.lock)",
    "assumptions": ["distinct random words are independent and uniform (the measure of {w : w < t} is t/2^k)",
                    "bin/mirumad: rustc MIR is the semantics of the source; callee models: Rng::random_bool(p) = true with probability p (successive draws independent), Distribution::sample = a fresh gene, into_iter/flat_map/flatten/collect = the closure's MIR once per gene in order; unknown statements / callees are inconclusive (exit 2)"],
}

PROPS["C13"] = {
    "features": ["c13"],
    "modules": ["c13_weighted::"],
    "has_thorough_harnesses": False,
    "functions": [
        "ec_core::weighted::weighted_pair::WeightedPair::new, <WeightedPair<A,B> as Selector<P>>::select, WithWeight::weight",
        "<ec_core::weighted::Weighted<T> as Selector<P>>::select, Weighted::new",
        "WithWeightedItem::{with_item_and_weight,with_weighted_item} for Weighted, WeightedPair and Result<_,WeightSumOverflow>",
        "<ec_core::operator::selector::dyn_weighted::DynWeighted<P> as Selector<P>>::select, new, with_selector (rand choose_weighted)",
        "rand 0.9.0 Bernoulli::from_ratio / Bernoulli::sample (f64 division and the 2^64 scaling) on symbolic u32 weights",
    ],
    "bounds": {
        "quick": "construction (WeightSumOverflow, weight sum) for ALL u32 pairs and 4-member chains, full width; selection with every random stream: "
                 "symbolic weights 0..=15 (pairs) / 0..=7 (left- and right-nested triples) and 8 + 4 concrete boundary weight tuples "
                 "(u32::MAX, 2^31, 1, 0 combinations); proportionality as a measure statement: for every 64-bit word w, w below (above) "
                 "a*2^64/(a+b) by more than 2^12 forces member A (B), checked division-free in u128; DynWeighted with 3 boxed members, weights "
                 "symbolic in 0..=7, streams = 4 symbolic words then all-ones",
    },
    "outside": "chains longer than 4 and trees deeper than 2 (the pair is the only combinator, deeper trees compose the verified pair step; not machine-checked); "
               "the exact proportionality law of DynWeighted (only zero-weight exclusion, exactly-one delegation and the error are decided; the "
               "distribution of rand's choose_weighted is rand's contract); a band of 2^13 words around each threshold (probability 2^-51); selection with symbolic full-width weights "
               "(measured: f64 divider against a 128-bit multiplier > 240 s) -- covered by the boundary table instead",
    "assumptions": [
        "independence of distinct random words (product law for nested pairs is an arithmetic consequence, not re-proved)",
        "rand 0.9.0 Bernoulli and choose_weighted run unmodified on the symbolic generator",
    ],
}

PROPS["C14"] = {
    "features": ["c14"],
    "modules": ["c14_compose::"],
    "needs_rand_090": False,
    "functions": [
        "<ec_core::operator::composable::{Then,And,Map,RepeatWith<_,N>} as Operator<_>>::apply (Map over [T;2], (T,T), Vec<T>)",
        "Composable::{then,and,map,then_map,apply_twice,apply_n_times}",
        "<{ThenError,AndError,MapError} as {Display,Error}>::{fmt,source}",
        "<ec_core::operator::{identity::Identity,constant::Constant,genome_extractor::GenomeExtractor} as Operator<_>>::apply",
        "<ec_core::operator::{selector::Select,mutator::Mutate,recombinator::Recombine} as Operator<_>>::apply, and the &S / &M / &mut M / &R forwarding impls",
    ],
    "bounds": {
        "quick": "probe operators on u64 that log (call index, input, word drawn) and fail at a SYMBOLIC global call index; all inputs and all "
                 "random words symbolic (SymRng); compositions: then, and, map over [T;2] / (T,T) / Vec of length 0..=3, repeat N=0..=3, apply_twice, "
                 "two nestings of depth 3 (4 and 5 component calls), select->extract->mutate pipeline, wrappers by value / & / &mut",
        "thorough": "as quick plus (P1 then P2) twice (4 calls) and the depth-3 nesting ((P1 then P2) twice) then_map P3 with 6 component calls, symbolic failing call",
    },
    "outside": "compositions nested deeper than 3 or with more than 6 component calls; vectors longer than 3 (the combinators are not recursive: "
               "deeper nestings are compositions of the verified cases, an induction that is not machine-checked)",
    "assumptions": [
        "error identification is observed through the public Display/Error::source of ThenError/AndError/MapError (their types are in private modules)",
    ],
}

PROPS["C16"] = {
    "features": ["c16"],
    "modules": ["c16_determinism::"],
    "functions": [
        "Selector::select of Best, Worst, Random, Tournament, Weighted/WeightedPair chains, Select wrapper",
        "Mutator::mutate of WithRate (and Mutate wrapper), Recombinator::recombine of TwoPointXo / UniformXo",
        "collection::Generator, Bitstring::random / random_with_probability, IndividualGenerator, OneOfCloning, Plushy GeneGenerator",
        "Instruction::perform of every int/float/bool instruction family is a pure function of (instruction, state): STEP harnesses of C01 compare against a functional reference",
        "MIR engine bin/mirinput (z3): PushStateBuilder::with_{int,bool,float}_input and build, <VariableName as From<&str>>::from, PushInstruction::push_{int,bool,float} and the constructors they call, PushState::with_input, its lookup closure, the derived <VariableName as PartialEq>::eq",
    ],
    "mirinput": {"quick": 4, "thorough": 5},
    "mirlex": "hidden",
    "mirlex_labels": ["X6"],
    "mirumad": {"quick": 3, "thorough": 4, "labels": ["U5"]},
    # D1: every draw of the recombinators comes from the generator that was passed in (a draw through rand's free functions / ThreadRng is found by z3 on the
    # path that reaches it -- under Kani such code only crashes the compiler, which is inconclusive)
    # (soft like under C10 / C12: where the interpreter has no rule for a new code shape it is skipped -- code that does reach rand::rng() still
    # leaves the check inconclusive through the Kani build, so nothing passes silently)
    "mirxo": {"quick": 4, "thorough": 6, "labels": ["D1"], "soft": True},
    "bounds": {
        "quick": "self-composition: each operation is run twice from two clones of ONE symbolic 6-word tape (then all-ones): equal results (identity for selectors) and equal generator "
                 "states (cursor and per-entry-point call counters); and twice on one operator value vs on fresh values (no hidden state); populations / genomes of 3 symbolic "
                 "elements, symbolic rates / weights 0..=3. Input declaration / hash-map order: MIR engine (z3): N <= 4 declared inputs (pairwise distinct SYMBOLIC names = strings of 1..=2 alphanumeric ASCII bytes with symbolic length and bytes, symbolic values, int/bool/float mixes) bound through the generated builder methods, build(), then one with_input of a SYMBOLIC name (equal to any declared name or to none) under EVERY iteration order of the hash map (n! orders, fork per order): exactly the instruction bound to the queried name is performed; an undeclared name reaches the documented panic",
        "thorough": "same Kani harnesses; MIR engine (z3): N <= 5 declared inputs (pairwise distinct SYMBOLIC names = strings of 1..=2 alphanumeric ASCII bytes with symbolic length and bytes, symbolic values, int/bool/float mixes) bound through the generated builder methods, build(), then one with_input of a SYMBOLIC name (equal to any declared name or to none) under EVERY iteration order of the hash map (n! orders, fork per order): exactly the instruction bound to the queried name is performed; an undeclared name reaches the documented panic",
    },
    "outside": "hash-map iteration order anywhere else than the input lookup (none found: input_instructions is the only HashMap in the library crates); more than one lookup per state (the map is never modified by a lookup); Generation::serial_next / par_next (rand::rng(): see C09); "
               "the lexicase LAW with >= 2 cases (C08; its independence of earlier calls IS decided here: MIR engine bin/mirlex, X6 - a second call on the same operator value hands the case-order shuffle the same input as the first, populations of 2 and 3 with 2 cases), Plushy parsing (C05), UMAD under Kani on non-empty parents (solver budget, see C11) - on the MIR (bin/mirumad, U5) every draw of Umad::mutate is shown to come from the supplied generator, parents of <= 3 genes; Push run_to_completion determinism beyond single steps "
               "(single steps are functional by the C01 STEP lemma); streams longer than 6 words. A library function reaching thread-local / OS randomness is not a failed "
               "assertion here but a harness that no longer compiles or links under Kani (reported as inconclusive, exit 2)",
    "assumptions": ["TapeRng models 'equal generator states': same tape, same cursor, same call counters", "bin/mirinput: rustc MIR (nightly, -Zunpretty=mir) is the semantics of the source; callee models (not executed): HashMap::insert = finite map, HashMap::iter = any order of the entries, Iterator::find_map = call the closure per entry in that order, <Arc<str> as PartialEq>::eq = same length and same bytes (z3), str::bytes / zip / all / len / eq_ignore_ascii_case on the same symbolic bytes, bool::then_some, Option::unwrap_or_else, Clone of PushInstruction = identity, Instruction::perform recorded (its effect is C01); an unknown statement or callee makes the run inconclusive (exit 2), never a pass"],
    "has_thorough_harnesses": False,
}

PROPS["C17"] = {
    "features": ["c17"],
    "modules": ["c17_erased::"],
    "needs_rand_090": False,
    "functions": [
        "blanket impls DynSelector / DynMutator / DynRecombinator / DynOperator / DynChildMaker for T (ec_core::operator::{selector,mutator,recombinator}::erased, operator::erased, child_maker::erased)",
        "the impls generated by #[ec_macros::dyn_ref_impls]: Selector / Mutator / Recombinator / Operator / ChildMaker for {&, &mut, RefMut, Box, Arc, Rc, Ref}<dyn Dyn* [+ Send][+ Sync]>",
    ],
    "bounds": {
        "quick": "all 140 instantiations (5 traits x 7 pointer flavours x {none, Send, Sync, Send+Sync}) + the default Box<dyn Error + Send + Sync> error form for three traits; wrapped "
                 "implementation = a concrete pure probe that draws two/three words and fails on a stream-dependent condition; all arguments and the 3-word tape symbolic; "
                 "direct call and erased call run from two clones of the tape",
    },
    "has_thorough_harnesses": False,
    "outside": "wrapped implementations other than the probes (the erased forms are generic forwarding code; a different wrapped type instantiates the same source); "
               "streams longer than 3 words",
    "assumptions": ["one probe implementation per trait stands for 'all wrapped implementations' (the forwarding code does not inspect the wrapped value)"],
}

PROPS["C18"] = {
    "features": ["c18"],
    "modules": ["c18_generators::"],
    "functions": [
        "<ec_core::distributions::collection::Generator<C> as Distribution<Vec<T>>>::sample, ConvertToCollectionGenerator::{into,to}_collection_generator",
        "ec_core::distributions::wrappers::owned::OneOfCloning::{new,sample,num_choices}, wrappers::choose_cloning::ChooseCloning::{new,sample,num_choices}",
        "all 14 IntoDistribution / ToDistribution impls of ec_core::distributions::conversion (array, &array, Vec, &Vec, slice; owning / borrowing / cloning)",
        "uniform_distribution_of! (both arms), ChoicesDistribution for rand::distr::slice::Choose",
        "ec_linear::genome::bitstring::Bitstring::random; IndividualGenerator-based population generator",
        "rand 0.9.0 Uniform<usize>::sample and distr::slice::Choose::sample on the symbolic generator",
    ],
    "bounds": {
        "quick": "source collections of N = 0..=4 members in each of the 14 conversion flavours plus the macro: N = 0 rejected with EmptySlice at construction, "
                 "otherwise num_choices = N, the sample is a member (the very element, by ptr::eq, for the borrowing flavours), and the returned index is "
                 "floor(w*N/2^32) of the first word w with (w*N mod 2^32) >= (2^32 mod N) -- rand's exactly-uniform index law, every member has floor(2^32/N) "
                 "accepted words; streams = 3 symbolic words then all-ones; collection generators of size 0..=2 over a probe element generator, Bitstring::random, population generator",
        "thorough": "as quick plus collection sizes 3 and 4",
    },
    "outside": "collections with more than 4 members / generators of more than 4 elements; streams whose first 3 words are all rejected by rand's rejection loop (probability < 2^-90 for N <= 4); "
               "that floor(2^32/N) accepted words per member means equal probability is Lemire's argument (paper step)",
    "assumptions": ["rand 0.9.0 UniformUsize / Choose algorithms define 'uniform variate'; version guard on Cargo.lock"],
    "cover_replay_tests": {},
}

PROPS["C19"] = {
    "features": ["c19"],
    "modules": ["c19_builder::"],
    "name_filter": "^c19_",
    "stubbing": True,
    "needs_rand_090": False,
    "has_thorough_harnesses": False,
    "functions": [
        "the builder generated by #[push_macros::push_state(builder)] for push::push_vm::push_state::PushState: builder(), with_max_stack_size, with_int_max_size, "
        "with_{int,bool,float}_values, with_program, with_no_program, with_int_input, with_instruction_step_limit, build",
        "generated HasStack<T> impls (stack::<T>() / stack_mut::<T>()) for the four stacks of PushState; PushState::with_input; max_instruction_steps",
        "MIR engine bin/mirinput (z3): PushStateBuilder::with_{int,bool,float}_input and build, <VariableName as From<&str>>::from, PushInstruction::push_{int,bool,float} and the constructors they call, PushState::with_input, its lookup closure, the derived <VariableName as PartialEq>::eq",
    ],
    "mirinput": {"quick": 4, "thorough": 5},
    "bounds": {
        "quick": "value lists of lengths (0,0),(1,2),(3,1),(2,3) for int/bool plus one float with symbolic contents, each with a maximum that fits and one that does not: "
                 "first supplied value on top, contents exact, Overflow exactly when a list is longer than the maximum; symbolic global / individual int maximum in both call orders: last one set wins; "
                 "programs of 0,1,3 sentinel elements with a symbolic maximum: first element on top of exec, Overflow when too long; step limit stored; every accessor addresses the field of its element type. "
                 "Lengths and the maximum are per-harness constants (fit / overflow instances), values symbolic. Named inputs: MIR engine (z3): N <= 4 declared inputs (pairwise distinct SYMBOLIC names = strings of 1..=2 alphanumeric ASCII bytes with symbolic length and bytes, symbolic values, int/bool/float mixes) bound through the generated builder methods, build(), then one with_input of a SYMBOLIC name (equal to any declared name or to none) under EVERY iteration order of the hash map (n! orders, fork per order): exactly the instruction bound to the queried name is performed; an undeclared name reaches the documented panic",
        "thorough": "same Kani harnesses; MIR engine (z3): N <= 5 declared inputs (pairwise distinct SYMBOLIC names = strings of 1..=2 alphanumeric ASCII bytes with symbolic length and bytes, symbolic values, int/bool/float mixes) bound through the generated builder methods, build(), then one with_input of a SYMBOLIC name (equal to any declared name or to none) under EVERY iteration order of the hash map (n! orders, fork per order): exactly the instruction bound to the queried name is performed; an undeclared name reaches the documented panic",
    },
    "outside": "the compile-time clauses (incomplete builders cannot be built; a stack's size cannot change after values were loaded) are decided by rustc's type checker, not by a solver: NOT claimed; "
               "the named-inputs clause under Kani (std HashMap: two inserts plus one lookup exceed 25 min under CBMC) - it is decided on the MIR instead, with HashMap::insert / iter replaced by their contracts; "
               "state structs other than PushState (a second #[push_state] struct with foreign element types does not compile outside the push crate: E0119); value lists longer than 3; "
               "HashMap iteration order (RandomState stubbed with fixed keys)",
    "assumptions": ["std::hash::RandomState::new is stubbed with fixed SipHash keys (no OS entropy under Kani)", "bin/mirinput: rustc MIR (nightly, -Zunpretty=mir) is the semantics of the source; callee models (not executed): HashMap::insert = finite map, HashMap::iter = any order of the entries, Iterator::find_map = call the closure per entry in that order, <Arc<str> as PartialEq>::eq = same length and same bytes (z3), str::bytes / zip / all / len / eq_ignore_ascii_case on the same symbolic bytes, bool::then_some, Option::unwrap_or_else, Clone of PushInstruction = identity, Instruction::perform recorded (its effect is C01); an unknown statement or callee makes the run inconclusive (exit 2), never a pass"],
    "unwindset_by_harness": [("^c19_", [(r"drop_glueNtNtNt\w+_4push7push_vm7program11PushProgramE", 1), (r"drop_glueSNtNtNt\w+_4push7push_vm7program11PushProgramE", 4)])],
}


def caps(cfg, tier):
    return cfg.get("caps", DEFAULT_CAPS)[tier] if isinstance(cfg.get("caps"), dict) else DEFAULT_CAPS[tier]


def caps_for(cfg, tier, short):
    for pat, c in cfg.get("caps_by_harness", []):
        if re.search(pat, short):
            return c
    return caps(cfg, tier)


def weight_for(cfg, short):
    for pat, w in cfg.get("weight_by_harness", []):
        if re.search(pat, short):
            return w
    return 1


def unwind_override(cfg, short):
    for pat, n in cfg.get("unwind_by_harness", []):
        if re.search(pat, short):
            return n
    return None


def unwindset_rules(cfg, short):
    out = []
    for pat, rules in cfg.get("unwindset_by_harness", []):
        if re.search(pat, short):
            out += rules
    return out


def replay_cover(cfg, pid, r, unk, VERIF, WORK, ENV):
    """An UNSATISFIABLE property cover ("this outcome can occur") has no counterexample trace.  Its
    native confirmation is a search test named in the config that tries a grid of scripted random
    streams against the real code and fails if the outcome never occurs."""
    import subprocess
    tests = cfg.get("cover_replay_tests", {})
    rdir = os.path.join(VERIF, "replays", pid)
    os.makedirs(rdir, exist_ok=True)
    rpath = os.path.join(rdir, r["short"] + ".txt")
    test = None
    for pat, t in tests.items():
        if re.search(pat, r["short"]):
            test = t
    if not test:
        open(rpath, "w").write("no native search test registered for %s\n" % r["short"])
        return None, rpath, "no native search test"
    env = dict(ENV, CARGO_TARGET_DIR=os.path.join(WORK, "target-native"))
    rr = subprocess.run(["cargo", "test", "--offline", "--features", ",".join(cfg["features"]), "--test", "native_search", test, "--", "--exact"],
                        cwd=os.path.join(VERIF, "harness"), stdout=subprocess.PIPE, stderr=subprocess.STDOUT, text=True, env=env)
    failed = "test result: FAILED" in rr.stdout
    ran = "running 1 test" in rr.stdout
    with open(rpath, "w") as f:
        f.write("UNSATISFIABLE cover(s) in %s:\n" % r["harness"])
        for u in unk:
            f.write("  %s @ %s\n" % (u["desc"], u["where"]))
        f.write("native search test: cargo test --features %s --test native_search %s\n" % (",".join(cfg["features"]), test))
        f.write("\n".join(rr.stdout.splitlines()[-25:]) + "\n")
    return (ran and failed), rpath, "native search %s" % ("never reached the outcome" if failed else "passed/not run")
