#!/bin/bash
# re-run every seeded change / benign refactor that is decided by a MIR engine (never touches /repo)
cd /verif
run() { r=$(bin/seedtest-mir "$1" "$2" 2>&1 | grep -E 'VIOLATION|INCONCLUSIVE|seedtest-mir exit' | tr '\n' ' '); echo "$3 $2: $r" | cut -c1-260; }
for s in "C05-a-parser-short-circuits-open-blocks C05" "C05-b-numopens-table-drops-unless C05" "C08-a-first-candidate-loses-ties C08" "C08-b-partial-shuffle-first C08" "C08-c-naive-shuffle-of-case-order C08" "C05-c-stray-close-run-eats-next-gene C05" \
         "C07-a-tournament-leave-out-by-value C07" "C07-c-tournament-king-of-the-hill C07" "C16-a-input-names-case-insensitive C16" "C19-c-input-prefix-match C19" "C09-a-serial-skips-small-populations C09" "C12-a-umad-delete-new-uses-addition-rate C12" "C16-b-lexicase-scratch-buffer C16" "C11-b-umad-empty-fallback C11" "C11-c-umad-new-argument-order C11" "C16-c2-umad-empty-coin-from-thread-rng C16" \
         "C01-d-ifelse-lone-then-kept C01" "C02-d-failed-input-drops-binding C02" "C06-d-tournament-sit-out-swap-remove C06" "C08-d-case-order-over-all-results C08" "C16-d-two-point-redraw-from-thread-rng C16" "C10-a-two-point-bitstring-right-end C10" "C03-a-ifelse-fatal-underflow C03" \
         "C09-b-par-one-seeded-generator C09" "C09-c-par-batches-drop-remainder C09" "C09-c-par-batches-drop-remainder C09" "C01-b-loop-skips-count-on-recoverable C01" "C03-b-loop-uncounted-recoverable C03"; do
  set -- $s; run /verif/seeded/$1/patch.diff $2 "seed $1"
done
for s in "1 C07" "2 C19" "2 C16" "3 C09" "4 C09" "5 C08" "6 C05"; do set -- $s; run /verif/benign/$1/patch.diff $2 "benign $1"; done
