#!/bin/sh
for p in C04 C19 C11 C12; do echo "=== $p"; bin/check $p --tier thorough 2>&1 | grep -E 'INCONCL|VIOL|OK:|BUILD|KNOWN' | cut -c1-200; done
