#!/usr/bin/env python3
"""Generates src/c01_stepgen.rs: STEP harness instances (instruction x concrete stack depths)."""
import os
# (name, constructor expr, Op expr, primary stack, arity, dest stack or None, heavy?)
INT = [
    ("pop", "IntInstruction::pop()", "Op::IPop", "i", 1, None, False),
    ("dup", "IntInstruction::dup()", "Op::IDup", "i", 1, None, False),
    ("swap", "IntInstruction::swap()", "Op::ISwap", "i", 2, None, False),
    ("is_empty", "IntInstruction::is_empty()", "Op::IIsEmpty", "i", 0, "b", False),
    ("stack_depth", "IntInstruction::stack_depth()", "Op::IDepth", "i", 0, None, False),
    ("flush", "IntInstruction::flush()", "Op::IFlush", "i", 0, None, False),
    ("negate", "IntInstruction::negate()", "Op::Negate", "i", 1, None, False),
    ("abs", "IntInstruction::abs()", "Op::Abs", "i", 1, None, False),
    ("min", "IntInstruction::Min", "Op::Min", "i", 2, None, False),
    ("max", "IntInstruction::Max", "Op::Max", "i", 2, None, False),
    ("clamp", "IntInstruction::clamp()", "Op::Clamp", "i", 3, None, False),
    ("inc", "IntInstruction::Inc", "Op::Inc", "i", 1, None, False),
    ("dec", "IntInstruction::Dec", "Op::Dec", "i", 1, None, False),
    ("add", "IntInstruction::Add", "Op::Add", "i", 2, None, False),
    ("subtract", "IntInstruction::Subtract", "Op::Sub", "i", 2, None, False),
    ("multiply", "IntInstruction::Multiply", "Op::Mul", "i", 2, None, True),
    ("protected_divide", "IntInstruction::ProtectedDivide", "Op::Div", "i", 2, None, True),
    ("mod", "IntInstruction::Mod", "Op::Mod", "i", 2, None, True),
    ("power", "IntInstruction::Power", "Op::Pow", "i", 2, None, True),
    ("square", "IntInstruction::Square", "Op::Square", "i", 1, None, True),
    ("is_zero", "IntInstruction::IsZero", "Op::IsZero", "i", 1, "b", False),
    ("is_positive", "IntInstruction::IsPositive", "Op::IsPos", "i", 1, "b", False),
    ("is_negative", "IntInstruction::IsNegative", "Op::IsNeg", "i", 1, "b", False),
    ("is_even", "IntInstruction::IsEven", "Op::IsEven", "i", 1, "b", False),
    ("is_odd", "IntInstruction::IsOdd", "Op::IsOdd", "i", 1, "b", False),
    ("equal", "IntInstruction::Equal", "Op::IEq", "i", 2, "b", False),
    ("not_equal", "IntInstruction::NotEqual", "Op::INe", "i", 2, "b", False),
    ("less_than", "IntInstruction::LessThan", "Op::ILt", "i", 2, "b", False),
    ("less_than_equal", "IntInstruction::LessThanEqual", "Op::ILe", "i", 2, "b", False),
    ("greater_than", "IntInstruction::GreaterThan", "Op::IGt", "i", 2, "b", False),
    ("greater_than_equal", "IntInstruction::GreaterThanEqual", "Op::IGe", "i", 2, "b", False),
    ("from_boolean", "IntInstruction::FromBoolean", "Op::FromBool", "b", 1, "i", False),
    ("from_float_approx", "IntInstruction::FromFloatApprox", "Op::FromFloat", "f", 1, "i", False),
]
FLOAT = [
    ("pop", "FloatInstruction::pop()", "Op::FPop", "f", 1, None, False),
    ("dup", "FloatInstruction::dup()", "Op::FDup", "f", 1, None, False),
    ("swap", "FloatInstruction::swap()", "Op::FSwap", "f", 2, None, False),
    ("is_empty", "FloatInstruction::is_empty()", "Op::FIsEmpty", "f", 0, "b", False),
    ("stack_depth", "FloatInstruction::stack_depth()", "Op::FDepth", "f", 0, "i", False),
    ("flush", "FloatInstruction::flush()", "Op::FFlush", "f", 0, None, False),
    ("add", "FloatInstruction::Add", "Op::FAdd", "f", 2, None, True),
    ("subtract", "FloatInstruction::Subtract", "Op::FSub", "f", 2, None, True),
    ("multiply", "FloatInstruction::Multiply", "Op::FMul", "f", 2, None, True),
    ("protected_divide", "FloatInstruction::ProtectedDivide", "Op::FDiv", "f", 2, None, True),
    ("equal", "FloatInstruction::Equal", "Op::FEq", "f", 2, "b", False),
    ("not_equal", "FloatInstruction::NotEqual", "Op::FNe", "f", 2, "b", False),
    ("greater_than", "FloatInstruction::GreaterThan", "Op::FGt", "f", 2, "b", False),
    ("less_than", "FloatInstruction::LessThan", "Op::FLt", "f", 2, "b", False),
    ("greater_than_or_equal", "FloatInstruction::GreaterThanOrEqual", "Op::FGe", "f", 2, "b", False),
    ("less_than_or_equal", "FloatInstruction::LessThanOrEqual", "Op::FLe", "f", 2, "b", False),
    ("from_int_approx", "FloatInstruction::FromIntApprox", "Op::FromInt", "i", 1, "f", False),
]
BOOL = [
    ("pop", "BoolInstruction::Pop(Default::default())", "Op::BPop", "b", 1, None, False),
    ("dup", "BoolInstruction::Dup(Default::default())", "Op::BDup", "b", 1, None, False),
    ("swap", "BoolInstruction::Swap(Default::default())", "Op::BSwap", "b", 2, None, False),
    ("is_empty", "BoolInstruction::IsEmpty(Default::default())", "Op::BIsEmpty", "b", 0, None, False),
    ("stack_depth", "BoolInstruction::StackDepth(Default::default())", "Op::BDepth", "b", 0, "i", False),
    ("flush", "BoolInstruction::Flush(Default::default())", "Op::BFlush", "b", 0, None, False),
    ("not", "BoolInstruction::Not", "Op::Not", "b", 1, None, False),
    ("or", "BoolInstruction::Or", "Op::Or", "b", 2, None, False),
    ("and", "BoolInstruction::And", "Op::And", "b", 2, None, False),
    ("xor", "BoolInstruction::Xor", "Op::Xor", "b", 2, None, False),
    ("implies", "BoolInstruction::Implies", "Op::Implies", "b", 2, None, False),
    ("from_int", "BoolInstruction::FromInt", "Op::BFromInt", "i", 1, "b", False),
]
PUSHES = [
    ("int", "push", "let v: i64 = kani::any(); let instr = IntInstruction::push(v); let op = Op::IPush(v);", "i"),
    ("float", "push", "let v: f64 = kani::any(); let instr = FloatInstruction::push(v); let op = Op::FPush(v);", "f"),
    ("bool", "push", "let v: bool = kani::any(); let instr = BoolInstruction::push(v); let op = Op::BPush(v);", "b"),
]

def depths(arity, heavy):
    quick = {0: [0, 2], 1: [0, 1], 2: [1, 2], 3: [2, 3]}[arity]
    thorough = [d for d in range(0, 5 if arity == 3 else 4) if d not in quick]
    if heavy:  # arithmetic kernels: only "exactly enough" in the quick tier
        thorough = sorted(set(thorough + [d for d in quick if d != arity]))
        quick = [arity]
    return quick, thorough

def tuple_for(prim, d, dest, dest_depth=1, other=1):
    t = {"i": other, "f": other, "b": other}
    t[prim] = d
    if dest and dest != prim:
        t[dest] = dest_depth
    return t["i"], t["f"], t["b"]

out = ['''//! STEP harness instances for C01 / C02 / C03.  GENERATED by gen/gen_c01.py -- do not edit by hand.
//! One harness per (instruction, concrete depths of the int/float/bool stacks); contents and the
//! per-stack maxima are symbolic.  `_t_` instances are compiled in the thorough tier only.
#[cfg(kani)]
mod proofs {
    use push::instruction::{BoolInstruction, FloatInstruction, IntInstruction};

    use crate::c01_step::{any_model, any_model_lean, check_step};
    use crate::push_ref::*;
''']
count = [0, 0]
def emit(name, body, thorough):
    out.append("    %s#[kani::proof]\n    #[kani::unwind(8)]\n    fn %s() {\n%s\n        crate::witness!(true, \"WITNESS reached\");\n    }\n" % (
        '#[cfg(feature = "thorough")]\n    ' if thorough else "", name, body))
    count[1 if thorough else 0] += 1

for fam, lst in (("int", INT), ("float", FLOAT), ("bool", BOOL)):
    for (n, ctor, op, prim, arity, dest, heavy) in lst:
        q, t = depths(arity, heavy)
        if (fam == "int" and n in ("power", "protected_divide", "mod")) or (fam == "float" and n in ("multiply", "protected_divide")):
            # full-width multiplier / divider kernels one element deeper than "exactly enough": every one of them ran
            # into the 25 min cap in the thorough validation run (vp run #7); the depth adds an untouched element only
            t = [d for d in t if d <= arity]
        for tier, ds in ((False, q), (True, t)):
            for d in ds:
                di, df, db = tuple_for(prim, d, dest, 1, 0 if heavy else 1)
                pre = "        let pre = %s(%d, %d, %d);" % ("any_model_lean" if heavy else "any_model", di, df, db)
                extra = ""
                if n == "power" and d >= 2:
                    extra = ("\n        // stated operand domain of Power (the multiplier chains of checked_pow do not finish otherwise)\n"
                             "        { let (x, y) = (pre.i.top(0), pre.i.top(1)); kani::assume(y <= 2); }")
                if n in ("protected_divide", "mod") and fam == "int" and d >= 2 and not tier:
                    extra = ("\n        // quick tier: narrow operands plus the extremes (two 64-bit dividers against each other exceed 240 s full width)\n"
                             "        { let (x, y) = (pre.i.top(0), pre.i.top(1));\n"
                             "          kani::assume((x >= -128 && x <= 127) || x == i64::MIN || x == i64::MIN + 1 || x == i64::MAX);\n"
                             "          kani::assume((y >= -16 && y <= 16) || y == i64::MIN || y == i64::MAX); }")
                if n in ("multiply", "protected_divide") and fam == "float" and d >= 2 and not tier:
                    extra = ("\n        // quick tier: operands from a table of special values x one arbitrary float is too heavy for the FP multiplier/divider;\n"
                             "        // both operands come from the table (NaN, infinities, signed zeros, subnormal, 1.5, -2.0, MAX)\n"
                             "        { let t = [f64::NAN, f64::INFINITY, f64::NEG_INFINITY, 0.0, -0.0, 5e-324, 1.5, -2.0, f64::MAX];\n"
                             "          let (a, b): (usize, usize) = (kani::any(), kani::any()); kani::assume(a < 9 && b < 9);\n"
                             "          let (x, y) = (pre.f.top(0), pre.f.top(1));\n"
                             "          kani::assume(x.to_bits() == t[a].to_bits() && y.to_bits() == t[b].to_bits()); }")
                intop = "Some(instr)" if fam == "int" else "None"
                body = "%s%s\n        let instr = %s;\n        check_step(&instr, %s, pre, %s);" % (pre, extra, ctor, op, intop)
                emit("c01_%s%s_%s_d%d" % ("t_" if tier else "", fam, n, d), body, tier)
                if n == "power" and d == 2:
                    # second half of Power's stated domain: small bases, exponents up to 70 (crosses the overflow boundary)
                    extra2 = ("\n        { let (x, y) = (pre.i.top(0), pre.i.top(1)); kani::assume(x >= -3 && x <= 3 && y >= 0 && y <= 70); }")
                    body2 = "%s%s\n        let instr = %s;\n        check_step(&instr, %s, pre, %s);" % (pre, extra2, ctor, op, intop)
                    emit("c01_%s%s_%s_smallbase_d%d" % ("t_" if tier else "", fam, n, d), body2, tier)
        # destination stack with depth 0 (maximum may be 0): thorough
        if dest and dest != prim:
            di, df, db = tuple_for(prim, arity, dest, 0)
            intop = "Some(instr)" if fam == "int" else "None"
            body = "        let pre = any_model(%d, %d, %d);\n        let instr = %s;\n        check_step(&instr, %s, pre, %s);" % (di, df, db, ctor, op, intop)
            emit("c01_t_%s_%s_dest0" % (fam, n), body, True)
for fam, n, setup, prim in PUSHES:
    for tier, ds in ((False, [0, 2]), (True, [1, 3])):
        for d in ds:
            di, df, db = tuple_for(prim, d, None)
            body = "        let pre = any_model(%d, %d, %d);\n        %s\n        check_step(&instr, op, pre, None);" % (di, df, db, setup)
            emit("c01_%s%s_%s_d%d" % ("t_" if tier else "", fam, n, d), body, tier)
out.append("}\n")
path = os.path.join(os.path.dirname(os.path.abspath(__file__)), "..", "src", "c01_stepgen.rs")
open(path, "w").write("\n".join(out))
print("generated quick=%d thorough-only=%d" % tuple(count))
