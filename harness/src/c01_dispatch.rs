//! C01 / C02 / C03 -- DISPATCH and BLOCK lemmas on the real `PushState` (built with the generated
//! builder): `PushInstruction::perform` / `PushProgram::perform` forward to the right instruction
//! family, input variables push the bound literal onto the stack of its type, blocks unfold in
//! order; none of them touches the inputs or the step limit; errors carry the unchanged state.
use ordered_float::OrderedFloat;
use push::error::into_state::IntoState;
use push::instruction::printing::PrintSpace;
use push::instruction::variable_name::VariableName;
use push::instruction::{BoolInstruction, ExecInstruction, FloatInstruction, Instruction, IntInstruction, PushInstruction};
use push::push_vm::program::PushProgram;
use push::push_vm::push_state::PushState;
use push::push_vm::stack::HasStack;
use push::push_vm::State;

use crate::c01_exec::{exec_is, id_of, sentinel};
use crate::push_ref::{classify, same_f64, stack_is, Fault, Stk, CAP};

/// fixed SipHash keys instead of OS entropy (HashMap inside PushState); the hash-map iteration
/// order is therefore not quantified (stated under C16)
pub fn fixed_random_state() -> std::hash::RandomState {
    unsafe { std::mem::transmute::<[u64; 2], std::hash::RandomState>([0x0123_4567_89ab_cdef, 0x0fed_cba9_8765_4321]) }
}

pub struct PModel {
    pub e: Stk<u8>,
    pub i: Stk<i64>,
    pub f: Stk<f64>,
    pub b: Stk<bool>,
    pub steps: usize,
}

/// PushState with the given contents, one global maximum `max`, inputs x (int), y (bool), z (float)
pub fn build_state(m: &PModel, max: usize, inputs: Option<(i64, bool, f64)>) -> PushState {
    let mut progs: Vec<PushProgram> = Vec::with_capacity(CAP);
    let mut k = m.e.n;
    while k > 0 {
        k -= 1;
        progs.push(sentinel(m.e.v[k]));
    }
    let mut iv: Vec<i64> = Vec::with_capacity(CAP);
    let mut k = m.i.n;
    while k > 0 {
        k -= 1;
        iv.push(m.i.v[k]);
    }
    let mut fv: Vec<OrderedFloat<f64>> = Vec::with_capacity(CAP);
    let mut k = m.f.n;
    while k > 0 {
        k -= 1;
        fv.push(OrderedFloat(m.f.v[k]));
    }
    let mut bv: Vec<bool> = Vec::with_capacity(CAP);
    let mut k = m.b.n;
    while k > 0 {
        k -= 1;
        bv.push(m.b.v[k]);
    }
    let b = PushState::builder()
        .with_max_stack_size(max)
        .with_program(progs)
        .unwrap()
        .with_int_values(iv)
        .unwrap()
        .with_float_values(fv)
        .unwrap()
        .with_bool_values(bv)
        .unwrap();
    match inputs {
        // (the input map is a HashMap: only the input-variable harnesses pay for it)
        Some((x, y, z)) => b
            .with_int_input("x", x)
            .with_bool_input("y", y)
            .with_float_input("z", OrderedFloat(z))
            .with_instruction_step_limit(m.steps)
            .build(),
        None => b.with_instruction_step_limit(m.steps).build(),
    }
}

/// destructive comparison of a PushState with a model (all four stacks, their maxima, the step limit)
pub fn pdiff(st: &mut PushState, m: &PModel, max: usize) -> u8 {
    let mut d = 0;
    let mut me = m.e;
    me.max = max;
    let mut mi = m.i;
    mi.max = max;
    let mut mf = m.f;
    mf.max = max;
    let mut mb = m.b;
    mb.max = max;
    if !exec_is(st.stack_mut::<PushProgram>(), &me) {
        d |= 1;
    }
    if !stack_is(st.stack_mut::<i64>(), &mi, |x, y| *x == y) {
        d |= 2;
    }
    if !stack_is(st.stack_mut::<OrderedFloat<f64>>(), &mf, |x, y| same_f64(x.0, y)) {
        d |= 4;
    }
    if !stack_is(st.stack_mut::<bool>(), &mb, |x, y| *x == y) {
        d |= 8;
    }
    if st.max_instruction_steps() != m.steps {
        d |= 16;
    }
    d
}

fn copy(m: &PModel) -> PModel {
    PModel { e: m.e, i: m.i, f: m.f, b: m.b, steps: m.steps }
}

/// perform `instr` through PushInstruction / PushProgram and compare with `expect` (None = must fail
/// with `fault`, state unchanged)
pub fn check_dispatch(instr: PushInstruction, via_program: bool, pre: &PModel, max: usize, inputs: Option<(i64, bool, f64)>, expect: Result<PModel, Fault>) {
    let st = build_state(pre, max, inputs);
    let r = if via_program {
        let p = PushProgram::Instruction(instr);
        let r = p.perform(st);
        std::mem::forget(p);
        r
    } else {
        let r = instr.perform(st);
        std::mem::forget(instr);
        r
    };
    match r {
        Ok(mut s) => {
            match &expect {
                Ok(post) => {
                    let d = pdiff(&mut s, post, max);
                    crate::a01!(d & 15 == 0, "C01 PushInstruction dispatch: stacks differ from the family instruction's semantics");
                    crate::a01!(d & 16 == 0, "C01 PushInstruction dispatch changed the step limit");
                }
                Err(_) => {
                    crate::a01!(false, "C01 PushInstruction dispatch succeeded although the instruction must fail");
                }
            }
            // inputs still resolve to their values (the input bindings are untouched)
            std::mem::forget(s);
        }
        Err(e) => {
            let (fatal, f) = classify(&e);
            match &expect {
                Ok(_) => {
                    crate::a01!(false, "C01 PushInstruction dispatch failed although the instruction must succeed");
                }
                Err(want) => {
                    crate::a01!(f == Some(*want), "C01 PushInstruction dispatch: error kind / payload");
                }
            }
            crate::a03!(fatal == (f == Some(Fault::Overflow)), "C03 error class through PushInstruction dispatch");
            let mut s = e.into_state();
            let d = pdiff(&mut s, pre, max);
            crate::a02!(d == 0, "C02 PushState (a stack, a limit or the step limit) changed by a failed instruction");
            std::mem::forget(s);
        }
    }
}

#[cfg(kani)]
fn small_model(ni: usize, nf: usize, nb: usize) -> PModel {
    let iv: [i64; CAP] = kani::any();
    let fv: [f64; CAP] = kani::any();
    let bv: [bool; CAP] = kani::any();
    let steps: usize = kani::any();
    PModel {
        e: Stk { v: [1, 2, 3, 4, 5], n: 0, max: 0 },
        i: Stk { v: iv, n: ni, max: 0 },
        f: Stk { v: fv, n: nf, max: 0 },
        b: Stk { v: bv, n: nb, max: 0 },
        steps,
    }
}

#[cfg(kani)]
mod proofs {
    use super::*;

    macro_rules! both_routes { ($($name:ident / $pname:ident = $body:ident;)*) => {$(
        #[kani::proof]
        #[kani::unwind(7)]
        #[kani::stub(std::hash::RandomState::new, crate::c01_dispatch::fixed_random_state)]
        fn $name() { $body(false); crate::witness!(true, "WITNESS reached"); }
        #[kani::proof]
        #[kani::unwind(7)]
        #[kani::stub(std::hash::RandomState::new, crate::c01_dispatch::fixed_random_state)]
        fn $pname() { $body(true); crate::witness!(true, "WITNESS reached"); }
    )*}; }

    fn int_add(via: bool) {
        let pre = small_model(2, 0, 0);
        let (x, y) = (pre.i.top(0), pre.i.top(1));
        let expect = match x.checked_add(y) {
            Some(r) => {
                let mut p = copy(&pre);
                p.i.drop_n(2);
                p.i.push(r);
                Ok(p)
            }
            None => Err(Fault::IntOverflow),
        };
        check_dispatch(IntInstruction::Add.into(), via, &pre, 3, None, expect);
    }
    fn int_add_missing(via: bool) {
        let pre = small_model(1, 0, 1);
        check_dispatch(IntInstruction::Add.into(), via, &pre, 2, None, Err(Fault::Underflow { req: 2, present: 1 }));
    }
    fn bool_and(via: bool) {
        let pre = small_model(0, 0, 2);
        let mut p = copy(&pre);
        let (a, b) = (pre.b.top(0), pre.b.top(1));
        p.b.drop_n(2);
        p.b.push(a && b);
        check_dispatch(BoolInstruction::And.into(), via, &pre, 3, None, Ok(p));
    }
    fn float_sub(via: bool) {
        let pre = small_model(0, 2, 0);
        let mut q = copy(&pre);
        let (u, v) = (pre.f.top(0), pre.f.top(1));
        q.f.drop_n(2);
        q.f.push(u - v);
        check_dispatch(FloatInstruction::Subtract.into(), via, &pre, 3, None, Ok(q));
    }
    fn exec_noop(via: bool) {
        let pre = small_model(1, 0, 1);
        check_dispatch(ExecInstruction::noop().into(), via, &pre, 2, None, Ok(copy(&pre)));
    }
    fn print_space(via: bool) {
        let pre = small_model(1, 0, 0);
        check_dispatch(PushInstruction::PrintSpace(PrintSpace::new()), via, &pre, 2, None, Ok(copy(&pre)));
    }
    both_routes! {
        c01_t_dispatch_int_add / c01_t_dispatch_prog_int_add = int_add;
        c01_t_dispatch_int_add_missing / c01_t_dispatch_prog_int_add_missing = int_add_missing;
        c01_t_dispatch_bool_and / c01_t_dispatch_prog_bool_and = bool_and;
        // float_sub (both routes) exceeded 1500 s on the full PushState in the thorough validation run and was dropped;
        // float arithmetic is decided by the STEP harnesses on the lean state, the routing by the other families here
        c01_t_dispatch_exec_noop / c01_t_dispatch_prog_exec_noop = exec_noop;
        c01_t_dispatch_print_space / c01_t_dispatch_prog_print_space = print_space;
    }

    // (input variables through the real HashMap: all three harnesses exceeded 1500 s - hashbrown + SipHash under CBMC;
    //  the lookup is decided on the MIR by bin/mirinput instead, see DESIGN 9.7)
}
