//! C01 / C02 / C03 -- STEP lemma for the exec-stack instructions (generic exec Pop/Push/Dup/Swap/
//! IsEmpty/StackDepth/Flush, Noop, DupBlock, When, Unless, IfElse) on `EState` (real exec, bool and
//! int `Stack`s).  Exec entries are distinct sentinel programs identified by an id; depths are
//! per-harness constants, bool/int contents and all maxima symbolic.
use push::error::into_state::IntoState;
use push::instruction::instruction_error::PushInstructionError;
use push::instruction::{ExecInstruction, Instruction, IntInstruction, PushInstruction};
use push::push_vm::program::PushProgram;
use push::push_vm::stack::{HasStack, Stack, TypeEq};

use crate::push_ref::{build_stack, classify, stack_is, Fault, Stk, CAP};

#[derive(Clone)]
pub struct EState {
    pub exec: Stack<PushProgram>,
    pub boolean: Stack<bool>,
    pub int: Stack<i64>,
}
impl HasStack<PushProgram> for EState {
    fn stack<U: TypeEq<This = PushProgram>>(&self) -> &Stack<PushProgram> {
        &self.exec
    }
    fn stack_mut<U: TypeEq<This = PushProgram>>(&mut self) -> &mut Stack<PushProgram> {
        &mut self.exec
    }
}
impl HasStack<bool> for EState {
    fn stack<U: TypeEq<This = bool>>(&self) -> &Stack<bool> {
        &self.boolean
    }
    fn stack_mut<U: TypeEq<This = bool>>(&mut self) -> &mut Stack<bool> {
        &mut self.boolean
    }
}
impl HasStack<i64> for EState {
    fn stack<U: TypeEq<This = i64>>(&self) -> &Stack<i64> {
        &self.int
    }
    fn stack_mut<U: TypeEq<This = i64>>(&mut self) -> &mut Stack<i64> {
        &mut self.int
    }
}

#[derive(Clone, Copy, PartialEq, Debug)]
pub struct EModel {
    pub e: Stk<u8>,
    pub b: Stk<bool>,
    pub i: Stk<i64>,
}

pub const EMPTY_BLOCK: u8 = 255;
/// sentinel program of an id: < 100 a flat instruction, 100..200 a one-element block, 255 the empty block
pub fn sentinel(id: u8) -> PushProgram {
    if id == EMPTY_BLOCK {
        PushProgram::Block(Vec::new())
    } else if id >= 100 {
        PushProgram::Block(vec![PushProgram::Instruction(PushInstruction::IntInstruction(IntInstruction::push(id as i64)))])
    } else {
        PushProgram::Instruction(PushInstruction::IntInstruction(IntInstruction::push(1000 + id as i64)))
    }
}
fn int_literal(p: &PushProgram) -> Option<i64> {
    match p {
        PushProgram::Instruction(PushInstruction::IntInstruction(IntInstruction::Push(pv))) => Some(pv.0),
        _ => None,
    }
}
pub fn id_of(p: &PushProgram) -> u8 {
    match p {
        PushProgram::Block(v) => {
            if v.is_empty() {
                EMPTY_BLOCK
            } else if v.len() == 1 {
                match int_literal(&v[0]) {
                    Some(x) if x >= 100 && x < 200 => x as u8,
                    _ => 254,
                }
            } else {
                254
            }
        }
        _ => match int_literal(p) {
            Some(x) if x >= 1000 && x < 1100 => (x - 1000) as u8,
            _ => 254,
        },
    }
}

impl EModel {
    pub fn build(&self) -> EState {
        // the exec stack is filled with ONE exact-size bulk insert (no Vec growth: a realloc would memcpy
        // the programs and CBMC then no longer sees their discriminants as constants)
        let mut progs: Vec<PushProgram> = Vec::with_capacity(CAP);
        let mut k = self.e.n;
        while k > 0 {
            k -= 1;
            progs.push(sentinel(self.e.v[k])); // first supplied value becomes the top
        }
        let mut exec: Stack<PushProgram> = Stack::default();
        exec.push_many(progs).unwrap();
        exec.set_max_stack_size(self.e.max);
        EState { exec, boolean: build_stack(&self.b, |x| x), int: build_stack(&self.i, |x| x) }
    }
}

/// destructive comparison; popped programs are forgotten (their drop glue recurses over all variants)
pub fn exec_is(s: &mut Stack<PushProgram>, m: &Stk<u8>) -> bool {
    if s.size() != m.n || s.max_stack_size() != m.max {
        return false;
    }
    let mut ok = true;
    let mut k = m.n;
    while k > 0 {
        k -= 1;
        match s.pop() {
            Ok(p) => {
                if id_of(&p) != m.v[k] {
                    ok = false;
                }
                std::mem::forget(p);
            }
            Err(_) => return false,
        }
    }
    ok && s.is_empty()
}
pub fn ediff(st: &mut EState, m: &EModel) -> u8 {
    let mut d = 0;
    if !exec_is(&mut st.exec, &m.e) {
        d |= 1;
    }
    if !stack_is(&mut st.boolean, &m.b, |x, y| *x == y) {
        d |= 2;
    }
    if !stack_is(&mut st.int, &m.i, |x, y| *x == y) {
        d |= 4;
    }
    d
}

#[derive(Clone, Copy, PartialEq, Debug)]
pub enum EOp {
    Pop, Push(u8), Dup, Swap, IsEmpty, Depth, Flush, Noop, DupBlock, When, Unless, IfElse,
}

#[derive(Clone, Copy, PartialEq, Debug)]
pub struct EExpected {
    pub fault: Option<Fault>,
    pub alt: Option<Fault>,
    /// for the conditionals the underflow payload is not part of the documented table
    pub any_underflow: bool,
    pub post: EModel,
}
fn ok(post: EModel) -> EExpected {
    EExpected { fault: None, alt: None, any_underflow: false, post }
}
fn err(pre: &EModel, f: Fault) -> EExpected {
    EExpected { fault: Some(f), alt: None, any_underflow: false, post: *pre }
}
fn under_any(pre: &EModel) -> EExpected {
    EExpected { fault: Some(Fault::Underflow { req: 0, present: 0 }), alt: None, any_underflow: true, post: *pre }
}

/// the documented action tables (doc comments of when.rs / unless.rs / ifelse.rs / dup_block.rs) and
/// the generic stack instructions, on the exec stack
pub fn estep(pre: &EModel, op: EOp) -> EExpected {
    let mut p = *pre;
    let have_bool = pre.b.n >= 1;
    let cond = if have_bool { pre.b.top(0) } else { false };
    match op {
        EOp::Noop => ok(p),
        EOp::Pop => {
            if p.e.n < 1 {
                return err(pre, Fault::Underflow { req: 1, present: 0 });
            }
            p.e.drop_n(1);
            ok(p)
        }
        EOp::Push(id) => {
            if p.e.full() {
                return err(pre, Fault::Overflow);
            }
            p.e.push(id);
            ok(p)
        }
        EOp::Dup | EOp::DupBlock => {
            if p.e.n < 1 {
                let mut r = err(pre, Fault::Underflow { req: 1, present: 0 });
                if p.e.full() {
                    r.alt = Some(Fault::Overflow);
                }
                return r;
            }
            if p.e.full() {
                return err(pre, Fault::Overflow);
            }
            let x = p.e.top(0);
            p.e.push(x);
            ok(p)
        }
        EOp::Swap => {
            if p.e.n < 2 {
                return err(pre, Fault::Underflow { req: 2, present: p.e.n });
            }
            let (x, y) = (p.e.top(0), p.e.top(1));
            p.e.drop_n(2);
            p.e.push(x);
            p.e.push(y);
            ok(p)
        }
        EOp::IsEmpty => {
            if p.b.full() {
                return err(pre, Fault::Overflow);
            }
            p.b.push(pre.e.n == 0);
            ok(p)
        }
        EOp::Depth => {
            if p.i.full() {
                return err(pre, Fault::Overflow);
            }
            p.i.push(pre.e.n as i64);
            ok(p)
        }
        EOp::Flush => {
            p.e.n = 0;
            ok(p)
        }
        EOp::When => {
            let have_block = pre.e.n >= 1;
            match (have_bool, have_block) {
                (true, true) => {
                    p.b.drop_n(1);
                    if !cond {
                        p.e.drop_n(1);
                    }
                    ok(p)
                }
                (false, true) => {
                    p.e.drop_n(1);
                    ok(p)
                }
                (true, false) => ok(p),
                (false, false) => under_any(pre),
            }
        }
        EOp::Unless => {
            let have_block = pre.e.n >= 1;
            match (have_bool, have_block) {
                (true, true) => {
                    p.b.drop_n(1);
                    if cond {
                        p.e.drop_n(1);
                    }
                    ok(p)
                }
                (false, true) => ok(p),
                (true, false) => ok(p),
                (false, false) => under_any(pre),
            }
        }
        EOp::IfElse => {
            let have_then = pre.e.n >= 1;
            let have_else = pre.e.n >= 2;
            if !have_then {
                return under_any(pre);
            }
            if have_bool {
                p.b.drop_n(1);
                if cond {
                    // then unchanged, else (second from top) consumed
                    if have_else {
                        let t = p.e.top(0);
                        p.e.drop_n(2);
                        p.e.push(t);
                    }
                } else {
                    // then consumed
                    p.e.drop_n(1);
                }
                ok(p)
            } else {
                // missing condition: then consumed, else (if any) unchanged
                p.e.drop_n(1);
                ok(p)
            }
        }
    }
}

pub fn check_estep(instr: &ExecInstruction, op: EOp, pre: EModel) {
    let exp = estep(&pre, op);
    let st = pre.build();
    match instr.perform(st) {
        Ok(mut s) => {
            crate::a01!(exp.fault.is_none(), "C01 exec instruction succeeded although its action table prescribes an error");
            crate::a03!(s.exec.size() <= s.exec.max_stack_size() && s.boolean.size() <= s.boolean.max_stack_size() && s.int.size() <= s.int.max_stack_size(),
                "C03 a stack holds more elements than its configured maximum after an exec instruction");
            let d = ediff(&mut s, &exp.post);
            crate::a01!(d & 1 == 0, "C01 exec stack after the instruction differs from the documented action table");
            crate::a01!(d & 2 == 0, "C01 boolean stack after the exec instruction differs from the documented action table");
            crate::a01!(d & 4 == 0, "C01 integer stack after the exec instruction differs from the prescribed one");
            std::mem::forget(s);
        }
        Err(e) => {
            let (fatal, f) = classify(&e);
            // (error class first: in the C03 build the C01 conditions below are assumptions and would cut this path)
            crate::a03!(fatal == (f == Some(Fault::Overflow)), "C03 error class: only a stack overflow may be fatal");
            crate::a01!(exp.fault.is_some(), "C01 exec instruction failed although its action table prescribes success");
            let kind_ok = if exp.any_underflow { matches!(f, Some(Fault::Underflow { .. })) } else { f.is_some() && (f == exp.fault || f == exp.alt) };
            crate::a01!(kind_ok, "C01 exec instruction: error kind / payload differs from the prescribed one");
            let mut s = e.into_state();
            let d = ediff(&mut s, &pre);
            crate::a02!(d & 1 == 0, "C02 exec stack (contents or limit) changed by a failed instruction");
            crate::a02!(d & 6 == 0, "C02 boolean or integer stack changed by a failed exec instruction");
            std::mem::forget(s);
        }
    }
    std::mem::forget(exp);
}

/// Stub for `<PushProgram as Clone>::clone` in the exec harnesses: rebuilds the sentinel with the same
/// id.  (The derived clone of a program read back from the heap makes CBMC explore the clone of every
/// instruction variant, including String / Arc payloads of symbolic size: > 11 GB.  The derived
/// Clone itself is compiler-generated code, not repository logic; the stub is part of the claim.)
pub fn clone_model(p: &PushProgram) -> PushProgram {
    sentinel(id_of(p))
}

/// cheaper variant for harnesses whose exec stack only holds flat sentinels
pub fn clone_model_flat(p: &PushProgram) -> PushProgram {
    match int_literal(p) {
        Some(x) => PushProgram::Instruction(PushInstruction::IntInstruction(IntInstruction::push(x))),
        None => PushProgram::Block(Vec::new()),
    }
}

pub fn mk_push(p: PushProgram) -> ExecInstruction {
    let mut e = ExecInstruction::Push(Default::default());
    if let ExecInstruction::Push(b) = &mut e {
        b.0 = p;
    }
    e
}

#[cfg(kani)]
pub fn any_emodel(ne: usize, nb: usize, nested: bool) -> EModel {
    // exec entries: distinct sentinels; entry k is flat (id k+1) or, when `nested`, the top two are one-element blocks
    let mut ev = [0u8; CAP];
    let mut k = 0;
    while k < ne {
        ev[k] = if nested && k + 2 >= ne { 100 + k as u8 } else { 1 + k as u8 };
        k += 1;
    }
    let emax: usize = kani::any();
    kani::assume(emax >= ne);
    let bv: [bool; CAP] = kani::any();
    let bmax: usize = kani::any();
    kani::assume(bmax >= nb);
    let iv: [i64; CAP] = kani::any();
    let imax: usize = kani::any();
    kani::assume(imax >= 1);
    EModel { e: Stk { v: ev, n: ne, max: emax }, b: Stk { v: bv, n: nb, max: bmax }, i: Stk { v: iv, n: 1, max: imax } }
}

#[cfg(all(kani, feature = "pushvm"))]
mod proofs {
    use super::*;

    macro_rules! esteps { ($($name:ident: $instr:expr => $op:expr, ($ne:literal, $nb:literal, $nested:literal);)*) => {$(
        #[kani::proof]
        #[kani::unwind(8)]
        #[kani::stub(<push::push_vm::program::PushProgram as std::clone::Clone>::clone, crate::c01_exec::clone_model_flat)]
        fn $name() {
            let pre = any_emodel($ne, $nb, $nested);
            let instr: ExecInstruction = $instr;
            check_estep(&instr, $op, pre);
            std::mem::forget(instr);
            crate::witness!(true, "WITNESS reached");
        }
    )*}; }
    macro_rules! esteps_nested { ($($name:ident: $instr:expr => $op:expr, ($ne:literal, $nb:literal, $nested:literal);)*) => {$(
        #[kani::proof]
        #[kani::unwind(8)]
        #[kani::stub(<push::push_vm::program::PushProgram as std::clone::Clone>::clone, crate::c01_exec::clone_model)]
        fn $name() {
            let pre = any_emodel($ne, $nb, $nested);
            let instr: ExecInstruction = $instr;
            check_estep(&instr, $op, pre);
            std::mem::forget(instr);
            crate::witness!(true, "WITNESS reached");
        }
    )*}; }
    esteps! {
        c01_exec_noop_e1: ExecInstruction::noop() => EOp::Noop, (1, 1, false);
        c01_exec_pop_e0: ExecInstruction::Pop(Default::default()) => EOp::Pop, (0, 1, false);
        c01_exec_pop_e1: ExecInstruction::Pop(Default::default()) => EOp::Pop, (1, 1, false);
        c01_exec_push_empty_block_e0: ExecInstruction::Push(Default::default()) => EOp::Push(EMPTY_BLOCK), (0, 0, false);
        c01_exec_dup_e0: ExecInstruction::Dup(Default::default()) => EOp::Dup, (0, 1, false);
        c01_exec_is_empty_e0: ExecInstruction::IsEmpty(Default::default()) => EOp::IsEmpty, (0, 1, false);
        c01_exec_is_empty_e1: ExecInstruction::IsEmpty(Default::default()) => EOp::IsEmpty, (1, 0, false);
        c01_exec_stack_depth_e1: ExecInstruction::StackDepth(Default::default()) => EOp::Depth, (1, 1, false);
        c01_exec_dup_block_e0: ExecInstruction::dup_block() => EOp::DupBlock, (0, 1, false);
        c01_exec_when_e0_b0: ExecInstruction::when() => EOp::When, (0, 0, false);
        c01_exec_when_e0_b1: ExecInstruction::when() => EOp::When, (0, 1, false);
        c01_exec_unless_e0_b0: ExecInstruction::unless() => EOp::Unless, (0, 0, false);
        c01_exec_unless_e0_b1: ExecInstruction::unless() => EOp::Unless, (0, 1, false);
        c01_exec_unless_e1_b0: ExecInstruction::unless() => EOp::Unless, (1, 0, false);
        c01_exec_if_else_e0_b0: ExecInstruction::if_else() => EOp::IfElse, (0, 0, false);
        c01_exec_if_else_e0_b1: ExecInstruction::if_else() => EOp::IfElse, (0, 1, false);
        c01_exec_if_else_e1_b0: ExecInstruction::if_else() => EOp::IfElse, (1, 0, false);
        c01_exec_if_else_e2_b0: ExecInstruction::if_else() => EOp::IfElse, (2, 0, false);
    }
    // Deeper exec stacks next to a symbolic bool (e >= 1 with b >= 1, e >= 2): every one of these exceeded 1500 s / ~9 GB
    // in the thorough validation runs (also when only two ran side by side), so they are compiled only with the
    // never-enabled feature `heavyexec` and are NOT part of any tier.  The STEP lemma for these instructions is
    // claimed for the depths of the quick list above.
    #[cfg(feature = "heavyexec")]
    esteps! {
        c01_t_exec_push_e1: mk_push(sentinel(9)) => EOp::Push(9), (1, 1, false);
        c01_t_exec_dup_e1: ExecInstruction::Dup(Default::default()) => EOp::Dup, (1, 1, false);
        c01_t_exec_swap_e1: ExecInstruction::Swap(Default::default()) => EOp::Swap, (1, 1, false);
        c01_t_exec_swap_e2: ExecInstruction::Swap(Default::default()) => EOp::Swap, (2, 1, false);
        c01_t_exec_flush_e2: ExecInstruction::Flush(Default::default()) => EOp::Flush, (2, 1, false);
        c01_t_exec_dup_block_e1: ExecInstruction::dup_block() => EOp::DupBlock, (1, 1, false);
        c01_t_exec_when_e1_b0: ExecInstruction::when() => EOp::When, (1, 0, false);
        c01_t_exec_when_e1_b1: ExecInstruction::when() => EOp::When, (1, 1, false);
        c01_t_exec_unless_e1_b1: ExecInstruction::unless() => EOp::Unless, (1, 1, false);
        c01_t_exec_if_else_e1_b1: ExecInstruction::if_else() => EOp::IfElse, (1, 1, false);
        c01_t_exec_if_else_e2_b1: ExecInstruction::if_else() => EOp::IfElse, (2, 1, false);
        c01_t_exec_pop_e2: ExecInstruction::Pop(Default::default()) => EOp::Pop, (2, 1, false);
        c01_t_exec_dup_e2: ExecInstruction::Dup(Default::default()) => EOp::Dup, (2, 1, false);
        c01_t_exec_swap_e3: ExecInstruction::Swap(Default::default()) => EOp::Swap, (3, 1, false);
        c01_t_exec_stack_depth_e2: ExecInstruction::StackDepth(Default::default()) => EOp::Depth, (2, 1, false);
        c01_t_exec_flush_e3: ExecInstruction::Flush(Default::default()) => EOp::Flush, (3, 1, false);
        c01_t_exec_when_e2_b2: ExecInstruction::when() => EOp::When, (2, 2, false);
        c01_t_exec_unless_e2_b2: ExecInstruction::unless() => EOp::Unless, (2, 2, false);
        c01_t_exec_if_else_e3_b2: ExecInstruction::if_else() => EOp::IfElse, (3, 2, false);
    }
    #[cfg(feature = "heavyexec")]
    esteps_nested! {
        c01_t_exec_dup_block_e2_nested: ExecInstruction::dup_block() => EOp::DupBlock, (2, 0, true);
        c01_t_exec_if_else_e3_b1_nested: ExecInstruction::if_else() => EOp::IfElse, (3, 1, true);
    }
}
