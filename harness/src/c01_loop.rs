//! C01 / C02 / C03 -- BLOCK lemma on the real `PushState` (and the abandoned Kani LOOP model, kept for reference).
//! BLOCK: performing a block unfolds it in order onto the exec stack or is a fatal overflow that leaves
//! the state unchanged.  LOOP: the real `run_to_completion` with `<PushProgram as
//! Instruction<PushState>>::perform` replaced (kani stubbing) by a nondeterministic step model that logs
//! which program it was handed: the i-th call gets the then-top of the exec stack, that entry has been
//! removed, the state after a recoverable error is the carried one, a fatal error ends the run with that
//! error, and the run makes exactly min(limit, entries) calls otherwise (limit 0: no call at all).
use push::error::{Error, InstructionResult};
use push::instruction::instruction_error::PushInstructionError;
use push::instruction::Instruction;
use push::push_vm::program::PushProgram;
use push::push_vm::push_state::PushState;
use push::push_vm::stack::{HasStack, StackError};
use push::push_vm::State;

use crate::c01_exec::{id_of, sentinel};

pub fn fixed_random_state() -> std::hash::RandomState {
    unsafe { std::mem::transmute::<[u64; 2], std::hash::RandomState>([0x0123_4567_89ab_cdef, 0x0fed_cba9_8765_4321]) }
}

// ---- ghost state of the step model ----
pub static mut CALLS: usize = 0;
pub static mut SEEN: [u8; 6] = [0; 6];
pub static mut EXEC_SIZE_AT_CALL: [usize; 6] = [0; 6];
pub static mut VERDICT: [u8; 6] = [0; 6];

/// step model: 0 = Ok, 1 = recoverable error, 2 = fatal error; every call pushes its own call number
/// onto the int stack of the state it hands back (so the threading of the state is observable)
pub fn perform_model(p: &PushProgram, mut state: PushState) -> InstructionResult<PushState, PushInstructionError> {
    let k = unsafe { CALLS };
    let verdict = unsafe { VERDICT[if k < 6 { k } else { 5 }] };
    unsafe {
        if k < 6 {
            SEEN[k] = id_of(p);
            EXEC_SIZE_AT_CALL[k] = state.stack::<PushProgram>().size();
        }
        CALLS = k + 1;
    }
    let _ = state.stack_mut::<i64>().push(k as i64);
    match verdict {
        0 => Ok(state),
        1 => Err(Error::recoverable(state, StackError::Underflow { num_requested: 1, num_present: 0 })),
        _ => Err(Error::fatal(state, StackError::Overflow { stack_type: "model" })),
    }
}

pub fn run_loop<const N: usize>(limit: usize, verdicts: [u8; 6]) {
    unsafe {
        CALLS = 0;
        VERDICT = verdicts;
    }
    let mut progs: Vec<PushProgram> = Vec::with_capacity(4);
    let mut k = 0;
    while k < N {
        progs.push(sentinel(1 + k as u8)); // program order: 1, 2, 3 (1 executes first)
        k += 1;
    }
    let st = PushState::builder().with_max_stack_size(8).with_program(progs).unwrap().with_instruction_step_limit(limit).build();
    let r = st.run_to_completion();
    let calls = unsafe { CALLS };
    // expected number of calls: stop at the first fatal verdict, at the limit, or when exec is empty
    let mut want = 0;
    let mut fatal_at: Option<usize> = None;
    while want < N && want < limit {
        let v = verdicts[want];
        want += 1;
        if v >= 2 {
            fatal_at = Some(want - 1);
            break;
        }
    }
    crate::a03!(calls <= limit, "C03 run_to_completion performed more instruction steps than the configured limit");
    crate::a01!(calls == want, "C01 interpreter loop: number of instructions performed (limit, empty exec, first fatal error)");
    let mut i = 0;
    while i < calls {
        crate::a01!(unsafe { SEEN[i] } == 1 + i as u8, "C01 interpreter loop: programs are not executed front to back");
        crate::a01!(unsafe { EXEC_SIZE_AT_CALL[i] } == N - 1 - i, "C01 interpreter loop: the instruction being performed must already be removed from the exec stack");
        i += 1;
    }
    match r {
        Ok(mut s) => {
            crate::a03!(fatal_at.is_none(), "C03 a fatal error did not end the run");
            crate::a01!(s.stack::<PushProgram>().size() == N - calls, "C01 interpreter loop: unexecuted programs must stay on the exec stack");
            // every call's marker is on the int stack, in order: the state was threaded through Ok and
            // through recoverable errors alike (a recoverable failure is skipped, its carried state kept)
            crate::a02!(s.stack::<i64>().size() == calls, "C02 after a recoverable error the interpreter must continue with the carried state");
            let mut i = calls;
            while i > 0 {
                i -= 1;
                let m = s.stack_mut::<i64>().pop().unwrap();
                crate::a02!(m == i as i64, "C02 state threading through recoverable errors");
            }
            std::mem::forget(s);
        }
        Err(e) => {
            crate::a03!(fatal_at == Some(calls - 1), "C03 evaluation ended with an error although no instruction reported a fatal (overflow) error");
            std::mem::forget(e);
        }
    }
}

/// BLOCK on the real PushState: `exec` holds one sentinel (9); the block has NB sentinels 1..=NB
pub fn run_block<const NB: usize>(max: usize) {
    let mut body: Vec<PushProgram> = Vec::with_capacity(4);
    let mut k = 0;
    while k < NB {
        body.push(sentinel(1 + k as u8));
        k += 1;
    }
    let block = PushProgram::Block(body);
    let st = PushState::builder().with_max_stack_size(max).with_program(vec![sentinel(9)]).unwrap().with_instruction_step_limit(7).build();
    match block.perform(st) {
        Ok(mut s) => {
            crate::a01!(1 + NB <= max, "C01 block unfolded beyond the exec stack's maximum");
            crate::a03!(s.stack::<PushProgram>().size() <= max, "C03 exec stack larger than its maximum after a block");
            crate::a01!(s.stack::<PushProgram>().size() == 1 + NB, "C01 block: exec size");
            let mut k = 0;
            while k < NB {
                let p = s.stack_mut::<PushProgram>().pop().unwrap();
                crate::a01!(id_of(&p) == 1 + k as u8, "C01 block must unfold in order: its first element becomes the top of the exec stack");
                std::mem::forget(p);
                k += 1;
            }
            let p = s.stack_mut::<PushProgram>().pop().unwrap();
            crate::a01!(id_of(&p) == 9, "C01 block: what was on the exec stack must stay below the unfolded block");
            std::mem::forget(p);
            crate::a01!(s.max_instruction_steps() == 7, "C01 block changed the step limit");
            std::mem::forget(s);
        }
        Err(e) => {
            crate::a01!(1 + NB > max, "C01 block failed although it fits");
            crate::a03!(e.is_fatal() && matches!(e.error(), PushInstructionError::StackError(StackError::Overflow { .. })), "C03 a block that does not fit must be a fatal overflow");
            let s = e.state();
            crate::a02!(s.stack::<PushProgram>().size() == 1 && s.max_instruction_steps() == 7, "C02 failed block changed the state");
            std::mem::forget(e);
        }
    }
    std::mem::forget(block);
}

#[cfg(all(kani, feature = "pushvm"))]
mod proofs {
    use super::*;

    // (LOOP on the real PushState was measured and dropped: even with a stubbed step, concrete verdicts
    // and a symbolic limit CBMC exhausts 14 GB -- moves / boxes of the whole PushState on every path.
    // The LOOP lemma is decided by bin/mirloop on the MIR instead; run_loop / perform_model above are kept
    // for reference and are not compiled into any harness.)

    macro_rules! blocks { ($($name:ident = <$nb:literal>, $max:expr;)*) => {$(
        #[kani::proof]
        #[kani::unwind(7)]
        #[kani::stub(std::hash::RandomState::new, crate::c01_loop::fixed_random_state)]
        #[kani::stub(<push::push_vm::program::PushProgram as std::clone::Clone>::clone, crate::c01_exec::clone_model_flat)]
        fn $name() {
            run_block::<$nb>($max);
            crate::witness!(true, "WITNESS reached");
        }
    )*}; }
    blocks! { c01_block_0 = <0>, 1; c01_block_2_fit = <2>, 3; c01_block_2_overflow = <2>, 2; c01_block_3_fit = <3>, 8; }
}
