//! C01 / C02 / C03 -- STEP lemma for the printing instructions.  The printed operand comes from a
//! concrete table (one harness per entry: formatting a symbolic number is the documented explosive
//! case and is outside the claim); everything below the operand, the other stacks, the maxima and
//! the output prefix are symbolic.
use ordered_float::OrderedFloat;
use push::error::into_state::IntoState;
use push::instruction::instruction_error::PushInstructionError;
use push::instruction::printing::{Print, PrintLn, PrintNewline, PrintPeriod, PrintSpace, PrintString};
use push::instruction::Instruction;
use push::push_vm::stack::HasStack;

use crate::push_ref::*;

/// which stack the printed operand is taken from
#[derive(Clone, Copy, PartialEq)]
pub enum From {
    Int,
    Float,
    Bool,
    Nothing,
}

/// expected: operand removed (if any), `text` appended to the output, everything else unchanged;
/// with a missing operand: recoverable Underflow{1,0}, state untouched.
pub fn check_print<I>(instr: &I, from: From, pre: Model, text: &[u8])
where
    I: Instruction<VState, Error = PushInstructionError>,
{
    let have = match from {
        From::Int => pre.i.n >= 1,
        From::Float => pre.f.n >= 1,
        From::Bool => pre.b.n >= 1,
        From::Nothing => true,
    };
    let mut post = pre;
    if have {
        match from {
            From::Int => post.i.drop_n(1),
            From::Float => post.f.drop_n(1),
            From::Bool => post.b.drop_n(1),
            From::Nothing => {}
        }
        let mut k = 0;
        while k < text.len() {
            post.out[post.nout] = text[k];
            post.nout += 1;
            k += 1;
        }
    }
    let st = pre.build();
    match instr.perform(st) {
        Ok(mut s) => {
            crate::a01!(have, "C01 print succeeded without an operand");
            crate::a03!(s.int.size() <= s.int.max_stack_size() && s.float.size() <= s.float.max_stack_size() && s.boolean.size() <= s.boolean.max_stack_size(),
                "C03 a stack holds more elements than its configured maximum after a print instruction");
            let d = diff(&mut s, &post);
            crate::a01!(d & 7 == 0, "C01 print: stacks differ from 'exactly the printed operand removed'");
            crate::a01!(d & 8 == 0, "C01 print: output differs from the previous output followed by the operand's text");
            std::mem::forget(s);
        }
        Err(e) => {
            let (fatal, f) = classify(&e);
            // (error class first: in the C03 build the C01 conditions below are assumptions and would cut this path)
            crate::a03!(!fatal, "C03 a missing print operand must be recoverable");
            crate::a01!(!have && f == Some(Fault::Underflow { req: 1, present: 0 }), "C01 print: error although the operand exists / wrong error");
            let mut s = e.into_state();
            let d = diff(&mut s, &pre);
            crate::a02!(d == 0, "C02 state (stacks, limits or output) changed by a failed print instruction");
            std::mem::forget(s);
        }
    }
}

#[cfg(kani)]
mod proofs {
    use super::*;
    use crate::c01_step::any_model;
    use push::instruction::{BoolInstruction, FloatInstruction, IntInstruction};

    fn model_with_int(d: usize, top: i64) -> Model {
        let mut m = any_model(d, 1, 1);
        if d > 0 {
            m.i.v[d - 1] = top;
        }
        m
    }
    fn model_with_float(d: usize, top: f64) -> Model {
        let mut m = any_model(1, d, 1);
        if d > 0 {
            m.f.v[d - 1] = top;
        }
        m
    }
    fn model_with_bool(d: usize, top: bool) -> Model {
        let mut m = any_model(1, 1, d);
        if d > 0 {
            m.b.v[d - 1] = top;
        }
        m
    }

    macro_rules! print_int { ($($name:ident / $lname:ident = ($d:literal, $v:expr, $text:literal, $ltext:literal);)*) => {$(
        #[kani::proof]
        #[kani::unwind(26)]
        fn $name() {
            let instr = IntInstruction::Print(Print::<i64>::new());
            check_print(&instr, From::Int, model_with_int($d, $v), $text);
            crate::witness!(true, "WITNESS reached");
        }
        #[kani::proof]
        #[kani::unwind(26)]
        fn $lname() {
            let instr = IntInstruction::PrintLn(PrintLn::<i64>::new());
            check_print(&instr, From::Int, model_with_int($d, $v), $ltext);
            crate::witness!(true, "WITNESS reached");
        }
    )*}; }
    print_int! {
        c01_print_int_42 / c01_println_int_42 = (2, 42, b"42", b"42\n");
        c01_print_int_0 / c01_println_int_0 = (1, 0, b"0", b"0\n");
        c01_print_int_neg1 / c01_println_int_neg1 = (3, -1, b"-1", b"-1\n");
        c01_print_int_min / c01_println_int_min = (1, i64::MIN, b"-9223372036854775808", b"-9223372036854775808\n");
        c01_print_int_max / c01_println_int_max = (2, i64::MAX, b"9223372036854775807", b"9223372036854775807\n");
        c01_print_int_missing / c01_println_int_missing = (0, 0, b"", b"");
    }

    macro_rules! print_float { ($($name:ident / $lname:ident = ($d:literal, $v:expr, $text:literal, $ltext:literal);)*) => {$(
        #[kani::proof]
        #[kani::unwind(26)]
        fn $name() {
            let instr = FloatInstruction::Print(Print::<OrderedFloat<f64>>::new());
            check_print(&instr, From::Float, model_with_float($d, $v), $text);
            crate::witness!(true, "WITNESS reached");
        }
        #[kani::proof]
        #[kani::unwind(26)]
        fn $lname() {
            let instr = FloatInstruction::PrintLn(PrintLn::<OrderedFloat<f64>>::new());
            check_print(&instr, From::Float, model_with_float($d, $v), $ltext);
            crate::witness!(true, "WITNESS reached");
        }
    )*}; }
    print_float! {
        c01_print_float_1_5 / c01_println_float_1_5 = (2, 1.5, b"1.5", b"1.5\n");
        c01_print_float_inf / c01_println_float_inf = (1, f64::INFINITY, b"inf", b"inf\n");
        c01_print_float_nan / c01_println_float_nan = (1, f64::NAN, b"NaN", b"NaN\n");
        c01_print_float_negzero / c01_println_float_negzero = (3, -0.0, b"-0", b"-0\n");
        c01_print_float_missing / c01_println_float_missing = (0, 0.0, b"", b"");
    }

    macro_rules! print_bool { ($($name:ident / $lname:ident = ($d:literal, $v:expr, $text:literal, $ltext:literal);)*) => {$(
        #[kani::proof]
        #[kani::unwind(26)]
        fn $name() {
            let instr = BoolInstruction::Print(Print::<bool>::new());
            check_print(&instr, From::Bool, model_with_bool($d, $v), $text);
            crate::witness!(true, "WITNESS reached");
        }
        #[kani::proof]
        #[kani::unwind(26)]
        fn $lname() {
            let instr = BoolInstruction::Println(PrintLn::<bool>::new());
            check_print(&instr, From::Bool, model_with_bool($d, $v), $ltext);
            crate::witness!(true, "WITNESS reached");
        }
    )*}; }
    print_bool! {
        c01_print_bool_true / c01_println_bool_true = (2, true, b"true", b"true\n");
        c01_print_bool_false / c01_println_bool_false = (1, false, b"false", b"false\n");
        c01_print_bool_missing / c01_println_bool_missing = (0, false, b"", b"");
    }

    #[kani::proof]
    #[kani::unwind(26)]
    fn c01_print_chars_and_string() {
        let pre = any_model(1, 1, 1);
        check_print(&PrintSpace::new(), From::Nothing, pre, b" ");
        check_print(&PrintNewline::new(), From::Nothing, pre, b"\n");
        check_print(&PrintPeriod::new(), From::Nothing, pre, b".");
        check_print(&PrintString::new(String::from("a b")), From::Nothing, pre, b"a b");
        check_print(&PrintString::new(String::new()), From::Nothing, pre, b"");
        crate::witness!(true, "WITNESS reached");
    }
}
