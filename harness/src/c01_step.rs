//! C01 / C02 / C03 -- STEP lemma: one real instruction from an arbitrary bounded state, compared
//! with the reference step.  The assertion sets are selected by the features a01 / a02 / a03 so the
//! three properties are decided (and reported) separately on the same harness bodies:
//!   a01: outcome, stacks and output are what the instruction semantics prescribe;
//!   a02: on every error the carried state equals the pre-state in every component;
//!   a03: no panic (Kani's automatic checks, always on), capacity invariant preserved, and only a
//!        stack overflow is fatal.
use ordered_float::OrderedFloat;
use push::error::into_state::IntoState;
use push::instruction::instruction_error::PushInstructionError;
use push::instruction::printing::{Print, PrintLn};
use push::instruction::{BoolInstruction, FloatInstruction, Instruction, IntInstruction, IntInstructionError};
use push::push_vm::stack::HasStack;

use crate::push_ref::*;

pub fn check_step<I>(instr: &I, op: Op, pre: Model, int_op: Option<IntInstruction>)
where
    I: Instruction<VState, Error = PushInstructionError>,
{
    let exp = step(&pre, op);
    let st = pre.build();
    match instr.perform(st) {
        Ok(mut s) => {
            crate::a01!(exp.fault.is_none(), "C01 instruction succeeded although its semantics prescribe an error (missing operands / full destination / overflow)");
            crate::a03!(s.int.size() <= s.int.max_stack_size() && s.float.size() <= s.float.max_stack_size() && s.boolean.size() <= s.boolean.max_stack_size(),
                "C03 a stack holds more elements than its configured maximum after an instruction");
            let d = diff(&mut s, &exp.post);
            crate::a01!(d & 1 == 0, "C01 integer stack after the instruction differs from the prescribed one (operand order / arity / result)");
            crate::a01!(d & 2 == 0, "C01 float stack after the instruction differs from the prescribed one (operand order / arity / result)");
            crate::a01!(d & 4 == 0, "C01 boolean stack after the instruction differs from the prescribed one (operand order / arity / result)");
            crate::a01!(d & 8 == 0, "C01 printed output after the instruction differs from the prescribed one");
            std::mem::forget(s);
        }
        Err(e) => {
            let (fatal, f) = classify(&e);
            // (error class first: in the C03 build the C01 conditions below are assumptions and would cut this path)
            crate::a03!(fatal == (f == Some(Fault::Overflow)), "C03 error class: only a stack overflow may be fatal; underflow and arithmetic faults are recoverable");
            crate::a01!(exp.fault.is_some(), "C01 instruction failed although its semantics prescribe success");
            crate::a01!(f.is_some() && (f == exp.fault || f == exp.alt), "C01 error kind / payload differs from the prescribed one");
            if let (Some(want), PushInstructionError::Int(IntInstructionError::Overflow { op: got })) = (int_op, e.error()) {
                crate::a01!(*got == want, "C01 integer overflow error names a different instruction");
            }
            let mut s = e.into_state();
            let d = diff(&mut s, &pre);
            crate::a02!(d & 1 == 0, "C02 integer stack (contents or limit) changed by a failed instruction");
            crate::a02!(d & 2 == 0, "C02 float stack (contents or limit) changed by a failed instruction");
            crate::a02!(d & 4 == 0, "C02 boolean stack (contents or limit) changed by a failed instruction");
            crate::a02!(d & 8 == 0, "C02 output buffer changed by a failed instruction");
            std::mem::forget(s);
        }
    }
}

#[cfg(kani)]
pub fn any_stk<T: kani::Arbitrary + Copy>(n: usize) -> Stk<T> {
    // depth is a per-harness constant (a Vec of symbolic length makes CBMC explode: > 10 GB);
    // contents and the maximum are symbolic
    let v: [T; CAP] = kani::any();
    let max: usize = kani::any();
    kani::assume(max >= n); // capacity invariant (inductive: C03)
    Stk { v, n, max }
}
/// lean pre-state for the arithmetic kernels (multiply / divide / power ...): no output bytes
#[cfg(kani)]
pub fn any_model_lean(di: usize, df: usize, db: usize) -> Model {
    Model { i: any_stk(di), f: any_stk(df), b: any_stk(db), out: [0; OUTN], nout: 0 }
}
/// pre-state: stacks of the given depths with symbolic contents and symbolic maxima >= depth
#[cfg(kani)]
pub fn any_model(di: usize, df: usize, db: usize) -> Model {
    let out: [u8; OUTN] = kani::any();
    Model { i: any_stk(di), f: any_stk(df), b: any_stk(db), out, nout: 2 }
}

