//! C04 — the bounded stack is a faithful all-or-nothing LIFO.
//!
//! One operation from an arbitrary pre-state (contents arbitrary, len <= N, max_stack_size an
//! unconstrained usize, so "maximum lowered below the current size" is inside the domain),
//! compared against an array model.  Every (contents, max) pair is reachable through the
//! public API (push with the default unlimited maximum, then set_max_stack_size), so the
//! single step from an arbitrary state covers histories of any length.
use collectable::TryExtend;
use push::push_vm::stack::{Stack, StackError};

/// Array model of a stack: `vals[..len]`, bottom first.
#[derive(Clone, Copy)]
pub struct Model<const N: usize> {
    pub vals: [i64; N],
    pub len: usize,
    pub max: usize,
}

impl<const N: usize> Model<N> {
    pub fn build(&self) -> Stack<i64> {
        let mut s: Stack<i64> = Stack::default();
        let mut i = 0;
        while i < self.len {
            s.push(self.vals[i]).unwrap();
            i += 1;
        }
        s.set_max_stack_size(self.max);
        s
    }
    /// Final, destructive comparison of the real stack with the model through the public API:
    /// size, maximum, then every element by `pop` (top first), then emptiness.
    /// (`Stack == [i64]` is a byte-wise memcmp loop, and any `clone()`/`push` on a Vec whose
    /// length became symbolic makes CBMC explode -- measured 196 s..>400 s against 4 s for
    /// pops only -- so contents are checked once, at the end of a harness, by popping.)
    pub fn same(&self, s: &mut Stack<i64>) -> bool {
        if s.size() != self.len || s.max_stack_size() != self.max {
            return false;
        }
        let mut ok = true;
        let mut i = self.len;
        while i > 0 {
            i -= 1;
            match s.pop() {
                Ok(v) => {
                    if v != self.vals[i] {
                        ok = false;
                    }
                }
                Err(_) => return false,
            }
        }
        ok && s.is_empty()
    }
    pub fn top(&self, k: usize) -> i64 {
        self.vals[self.len - 1 - k]
    }
}

#[cfg(kani)]
pub fn any_model<const N: usize>(len: usize) -> Model<N> {
    // `len` is a per-harness constant: a Vec of symbolic length makes clone()/memcpy explode in
    // CBMC (measured 429 s vs 2 s); values and the maximum stay symbolic.
    let vals: [i64; N] = kani::any();
    assert!(len <= N);
    let max: usize = kani::any();
    Model { vals, len, max }
}

/// A plain iterator (no ExactSizeIterator / DoubleEndedIterator, default size_hint).
pub struct Plain<const M: usize> {
    pub items: [i64; M],
    pub n: usize,
    pub next: usize,
}
impl<const M: usize> Iterator for Plain<M> {
    type Item = i64;
    fn next(&mut self) -> Option<i64> {
        if self.next < self.n {
            let v = self.items[self.next];
            self.next += 1;
            Some(v)
        } else {
            None
        }
    }
}

fn is_underflow(e: &StackError, req: usize, present: usize) -> bool {
    matches!(e, StackError::Underflow { num_requested, num_present }
        if *num_requested == req && *num_present == present)
}
fn is_overflow(e: &StackError) -> bool {
    matches!(e, StackError::Overflow { .. })
}

// ---------------------------------------------------------------------------------------------
// Step functions: perform ONE operation on the real stack and check it against the model.
// Each returns the post-model so sequences can be chained.  `check!` is assert under Kani and
// in native replays alike.
// ---------------------------------------------------------------------------------------------

pub fn step_push<const N: usize>(m: Model<N>, s: &mut Stack<i64>, v: i64) -> Model<N> {
    // is_full must agree with what push does
    let full_before = s.is_full();
    let r = s.push(v);
    let mut post = m;
    match r {
        Ok(()) => {
            // no successful insertion leaves the stack larger than its current maximum
            assert!(s.size() <= s.max_stack_size(), "C04 push: size exceeds max after Ok");
            assert!(m.len < m.max, "C04 push: succeeded on a full/over-full stack");
            if m.len < N {
                post.vals[m.len] = v;
                post.len = m.len + 1;
            } else {
                unreachable!("caller keeps len < N");
            }
            assert!(!full_before, "C04 is_full said full but push succeeded");
        }
        Err(e) => {
            assert!(is_overflow(&e), "C04 push: error kind");
            assert!(m.len >= m.max, "C04 push: failed although there was room");
            assert!(full_before, "C04 is_full said not full but push failed");
        }
    }
    post
}

pub fn step_pop<const N: usize>(m: Model<N>, s: &mut Stack<i64>) -> Model<N> {
    let mut post = m;
    match s.pop() {
        Ok(v) => {
            assert!(m.len >= 1 && v == m.top(0), "C04 pop value");
            post.len = m.len - 1;
        }
        Err(e) => {
            assert!(m.len == 0 && is_underflow(&e, 1, 0), "C04 pop error");
        }
    }
    post
}

pub fn step_pop2<const N: usize>(m: Model<N>, s: &mut Stack<i64>) -> Model<N> {
    let mut post = m;
    match s.pop2() {
        Ok((x, y)) => {
            assert!(m.len >= 2 && x == m.top(0) && y == m.top(1), "C04 pop2 values");
            post.len = m.len - 2;
        }
        Err(e) => {
            assert!(m.len < 2 && is_underflow(&e, 2, m.len), "C04 pop2 error");
        }
    }
    post
}

pub fn step_pop3<const N: usize>(m: Model<N>, s: &mut Stack<i64>) -> Model<N> {
    let mut post = m;
    match s.pop3() {
        Ok((x, y, z)) => {
            assert!(
                m.len >= 3 && x == m.top(0) && y == m.top(1) && z == m.top(2),
                "C04 pop3 values"
            );
            post.len = m.len - 3;
        }
        Err(e) => {
            assert!(m.len < 3 && is_underflow(&e, 3, m.len), "C04 pop3 error");
        }
    }
    post
}

pub fn step_tops<const N: usize>(m: Model<N>, s: &mut Stack<i64>) -> Model<N> {
    match s.top() {
        Ok(x) => assert!(m.len >= 1 && *x == m.top(0), "C04 top value"),
        Err(e) => assert!(m.len == 0 && is_underflow(&e, 1, 0), "C04 top error"),
    }
    match s.top2() {
        Ok((x, y)) => assert!(m.len >= 2 && *x == m.top(0) && *y == m.top(1), "C04 top2 values"),
        Err(e) => assert!(m.len < 2 && is_underflow(&e, 2, m.len), "C04 top2 error"),
    }
    match s.top3() {
        Ok((x, y, z)) => assert!(
            m.len >= 3 && *x == m.top(0) && *y == m.top(1) && *z == m.top(2),
            "C04 top3 values"
        ),
        Err(e) => assert!(m.len < 3 && is_underflow(&e, 3, m.len), "C04 top3 error"),
    }
    m
}

pub fn step_discard<const N: usize>(m: Model<N>, s: &mut Stack<i64>, n: usize) -> Model<N> {
    let mut post = m;
    match s.discard(n) {
        Ok(()) => {
            assert!(n <= m.len, "C04 discard: Ok although too few");
            post.len = m.len - n;
        }
        Err(e) => {
            assert!(n > m.len && is_underflow(&e, n, m.len), "C04 discard error");
        }
    }
    post
}

/// bulk insert of `items[..k]`; returns post model (requires m.len + k <= N for model tracking)
fn bulk_post<const N: usize, const M: usize>(m: Model<N>, items: &[i64; M], k: usize) -> Model<N> {
    let mut post = m;
    // first supplied value becomes the new top => stored last
    let mut i = 0;
    while i < k {
        post.vals[m.len + i] = items[k - 1 - i];
        i += 1;
    }
    post.len = m.len + k;
    post
}

pub fn step_push_many<const N: usize, const M: usize>(
    m: Model<N>,
    s: &mut Stack<i64>,
    items: [i64; M],
    k: usize,
) -> Model<N> {
    // k <= M, m.len + M <= N is the caller's obligation
    let r = s.push_many(items[..k].iter().copied());
    match r {
        Ok(()) => {
            assert!(s.size() <= s.max_stack_size(), "C04 push_many: size exceeds max after Ok");
            assert!(m.len + k <= m.max, "C04 push_many: Ok although over capacity");
            let post = bulk_post(m, &items, k);
            if k > 0 {
                assert!(*s.top().unwrap() == items[0], "C04 push_many: first supplied value is top");
            }
            post
        }
        Err(e) => {
            assert!(is_overflow(&e), "C04 push_many: error kind");
            assert!(m.len + k > m.max, "C04 push_many: failed although there was room");
            m
        }
    }
}

pub fn step_try_extend<const N: usize, const M: usize>(
    m: Model<N>,
    s: &mut Stack<i64>,
    items: [i64; M],
    k: usize,
) -> Model<N> {
    let mut it = Plain { items, n: k, next: 0 };
    let r = s.try_extend(&mut it);
    match r {
        Ok(()) => {
            if k > 0 {
                assert!(s.size() <= s.max_stack_size(), "C04 try_extend: size exceeds max after Ok");
                assert!(m.len + k <= m.max, "C04 try_extend: Ok although over capacity");
                assert!(*s.top().unwrap() == items[0], "C04 try_extend: first supplied value is top");
            }
            let post = bulk_post(m, &items, k);
            post
        }
        Err(e) => {
            assert!(is_overflow(&e), "C04 try_extend: error kind");
            assert!(m.len + k > m.max, "C04 try_extend: failed although there was room");
            m
        }
    }
}

pub fn step_set_max<const N: usize>(m: Model<N>, s: &mut Stack<i64>, new_max: usize) -> Model<N> {
    s.set_max_stack_size(new_max);
    let mut post = m;
    post.max = new_max;
    post
}

pub fn step_queries<const N: usize>(m: Model<N>, s: &mut Stack<i64>) -> Model<N> {
    assert!(s.size() == m.len, "C04 size");
    assert!(s.is_empty() == (m.len == 0), "C04 is_empty");
    assert!(s.max_stack_size() == m.max, "C04 max_stack_size");
    // is_full must agree with what a push would do (checked on a clone)
    m
}

/// one symbolically chosen operation (for sequences)
#[cfg(kani)]
pub fn step_any<const N: usize>(m: Model<N>, s: &mut Stack<i64>) -> Model<N> {
    let op: u8 = kani::any();
    kani::assume(op < 10);
    match op {
        0 => {
            kani::assume(m.len < N);
            step_push(m, s, kani::any())
        }
        1 => step_pop(m, s),
        2 => step_pop2(m, s),
        3 => step_pop3(m, s),
        4 => step_tops(m, s),
        5 => step_discard(m, s, kani::any()),
        6 => {
            let k: usize = kani::any();
            kani::assume(k <= 2 && m.len + 2 <= N);
            step_push_many::<N, 2>(m, s, kani::any(), k)
        }
        7 => {
            let k: usize = kani::any();
            kani::assume(k <= 2 && m.len + 2 <= N);
            step_try_extend::<N, 2>(m, s, kani::any(), k)
        }
        8 => step_set_max(m, s, kani::any()),
        _ => step_queries(m, s),
    }
}

#[cfg(kani)]
mod proofs {
    use super::*;

    fn push_body<const L: usize>() {
        let m = any_model::<5>(L);
        let mut s = m.build();
        let post = step_push(m, &mut s, kani::any());
        crate::witness!(post.len == m.len + 1, "WITNESS push ok");
        crate::witness!(post.len == m.len, "WITNESS push rejected");
        assert!(post.same(&mut s), "C04 push: contents differ from model afterwards");
    }
    fn pop_body<const L: usize>() {
        let m = any_model::<5>(L);
        let mut s = m.build();
        let post = step_pop(m, &mut s);
        crate::witness!(post.len + 1 == m.len || m.len == 0, "WITNESS pop reached");
        assert!(post.same(&mut s), "C04 pop: contents differ from model afterwards");
    }
    fn pop2_body<const L: usize>() {
        let m = any_model::<5>(L);
        let mut s = m.build();
        let post = step_pop2(m, &mut s);
        crate::witness!(post.len + 2 == m.len || m.len < 2, "WITNESS pop2 reached");
        assert!(post.same(&mut s), "C04 pop2: contents differ from model afterwards");
    }
    fn pop3_body<const L: usize>() {
        let m = any_model::<5>(L);
        let mut s = m.build();
        let post = step_pop3(m, &mut s);
        crate::witness!(post.len + 3 == m.len || m.len < 3, "WITNESS pop3 reached");
        assert!(post.same(&mut s), "C04 pop3: contents differ from model afterwards");
    }
    fn tops_body<const L: usize>() {
        let m = any_model::<5>(L);
        let mut s = m.build();
        step_tops(m, &mut s);
        crate::witness!(true, "WITNESS tops reached");
        assert!(m.same(&mut s), "C04 top*: contents changed by a read");
    }
    fn discard_body<const L: usize>() {
        let m = any_model::<5>(L);
        let mut s = m.build();
        let n: usize = kani::any();
        let post = step_discard(m, &mut s, n);
        crate::witness!(n == m.len && post.len == 0, "WITNESS discard all");
        crate::witness!(n > m.len, "WITNESS discard underflow");
        assert!(post.same(&mut s), "C04 discard: contents differ from model afterwards");
    }
    fn push_many_body<const L: usize, const K: usize>() {
        // K is a per-harness constant (symbolic k: 47..>240 s per instance)
        let m = any_model::<7>(L);
        let mut s = m.build();
        let post = step_push_many::<7, 3>(m, &mut s, kani::any(), K);
        crate::witness!(post.len == m.len + K, "WITNESS push_many ok");
        crate::witness!(post.len == m.len, "WITNESS push_many overflow or empty");
        assert!(post.same(&mut s), "C04 push_many: contents/order differ from model afterwards");
    }
    fn try_extend_body<const L: usize, const K: usize>() {
        // K (number of supplied items) is a per-harness constant as well: `take(max - len)` with
        // a symbolic maximum already makes the extended Vec's length symbolic (35-45 s each).
        let m = any_model::<7>(L);
        let mut s = m.build();
        let post = step_try_extend::<7, 3>(m, &mut s, kani::any(), K);
        crate::witness!(post.len == m.len + K, "WITNESS try_extend ok");
        crate::witness!(post.len == m.len || K == 0, "WITNESS try_extend overflow");
        assert!(post.same(&mut s), "C04 try_extend: contents/order differ from model afterwards");
    }
    fn setmax_body<const L: usize>() {
        let m = any_model::<5>(L);
        let mut s = m.build();
        let m1 = step_queries(m, &mut s);
        let m2 = step_set_max(m1, &mut s, kani::any());
        step_queries(m2, &mut s);
        crate::witness!(m2.max < m2.len || L == 0, "WITNESS max lowered below size");
        assert!(m2.same(&mut s), "C04 set_max_stack_size/queries: contents or max differ");
    }
    fn seq2_body<const L: usize>() {
        let m = any_model::<7>(L);
        let mut s = m.build();
        let m1 = step_any(m, &mut s);
        kani::assume(m1.len <= 7);
        let m2 = step_any(m1, &mut s);
        crate::witness!(m2.len == m.len + 3, "WITNESS two insertions");
        assert!(m2.same(&mut s), "C04 sequence: contents differ from model afterwards");
    }

    macro_rules! inst {
        ($($name:ident = $body:ident::<$l:literal>;)*) => {
            $( #[kani::proof] #[kani::unwind(8)] fn $name() { $body::<$l>() } )*
        };
    }
    inst! {
        c04_push_l0 = push_body::<0>; c04_push_l1 = push_body::<1>; c04_push_l2 = push_body::<2>;
        c04_push_l3 = push_body::<3>; c04_push_l4 = push_body::<4>;
        c04_pop_l0 = pop_body::<0>; c04_pop_l1 = pop_body::<1>; c04_pop_l2 = pop_body::<2>;
        c04_pop_l3 = pop_body::<3>; c04_pop_l4 = pop_body::<4>;
        c04_pop2_l0 = pop2_body::<0>; c04_pop2_l1 = pop2_body::<1>; c04_pop2_l2 = pop2_body::<2>;
        c04_pop2_l3 = pop2_body::<3>; c04_pop2_l4 = pop2_body::<4>;
        c04_pop3_l0 = pop3_body::<0>; c04_pop3_l1 = pop3_body::<1>; c04_pop3_l2 = pop3_body::<2>;
        c04_pop3_l3 = pop3_body::<3>; c04_pop3_l4 = pop3_body::<4>;
        c04_tops_l0 = tops_body::<0>; c04_tops_l1 = tops_body::<1>; c04_tops_l2 = tops_body::<2>;
        c04_tops_l3 = tops_body::<3>; c04_tops_l4 = tops_body::<4>;
        c04_discard_l0 = discard_body::<0>; c04_discard_l1 = discard_body::<1>;
        c04_discard_l2 = discard_body::<2>; c04_discard_l3 = discard_body::<3>;
        c04_discard_l4 = discard_body::<4>;
        c04_setmax_l0 = setmax_body::<0>; c04_setmax_l1 = setmax_body::<1>;
        c04_setmax_l2 = setmax_body::<2>; c04_setmax_l3 = setmax_body::<3>;
        c04_setmax_l4 = setmax_body::<4>;
    }
    macro_rules! inst2 {
        ($($name:ident = $body:ident::<$l:literal, $k:literal>;)*) => {
            $( #[kani::proof] #[kani::unwind(8)] fn $name() { $body::<$l, $k>() } )*
        };
    }
    inst2! {
        c04_push_many_l0_k0 = push_many_body::<0, 0>; c04_push_many_l0_k3 = push_many_body::<0, 3>;
        c04_push_many_l1_k1 = push_many_body::<1, 1>; c04_push_many_l2_k2 = push_many_body::<2, 2>;
        c04_push_many_l3_k3 = push_many_body::<3, 3>; c04_push_many_l4_k0 = push_many_body::<4, 0>;
        c04_try_extend_l0_k0 = try_extend_body::<0, 0>; c04_try_extend_l0_k2 = try_extend_body::<0, 2>;
        c04_try_extend_l1_k1 = try_extend_body::<1, 1>; c04_try_extend_l2_k3 = try_extend_body::<2, 3>;
        c04_try_extend_l3_k2 = try_extend_body::<3, 2>;
    }
    #[cfg(feature = "thorough")]
    inst2! {
        c04_t_push_many_l0_k1 = push_many_body::<0, 1>; c04_t_push_many_l0_k2 = push_many_body::<0, 2>;
        c04_t_push_many_l1_k0 = push_many_body::<1, 0>; c04_t_push_many_l1_k2 = push_many_body::<1, 2>;
        c04_t_push_many_l1_k3 = push_many_body::<1, 3>; c04_t_push_many_l2_k0 = push_many_body::<2, 0>;
        c04_t_push_many_l2_k1 = push_many_body::<2, 1>; c04_t_push_many_l2_k3 = push_many_body::<2, 3>;
        c04_t_push_many_l3_k0 = push_many_body::<3, 0>; c04_t_push_many_l3_k1 = push_many_body::<3, 1>;
        c04_t_push_many_l3_k2 = push_many_body::<3, 2>; c04_t_push_many_l4_k1 = push_many_body::<4, 1>;
        c04_t_push_many_l4_k2 = push_many_body::<4, 2>; c04_t_push_many_l4_k3 = push_many_body::<4, 3>;
        c04_t_try_extend_l0_k1 = try_extend_body::<0, 1>; c04_t_try_extend_l0_k3 = try_extend_body::<0, 3>;
        c04_t_try_extend_l1_k0 = try_extend_body::<1, 0>; c04_t_try_extend_l1_k2 = try_extend_body::<1, 2>;
        c04_t_try_extend_l1_k3 = try_extend_body::<1, 3>; c04_t_try_extend_l2_k0 = try_extend_body::<2, 0>;
        c04_t_try_extend_l2_k1 = try_extend_body::<2, 1>; c04_t_try_extend_l2_k2 = try_extend_body::<2, 2>;
        c04_t_try_extend_l3_k0 = try_extend_body::<3, 0>; c04_t_try_extend_l3_k1 = try_extend_body::<3, 1>;
        c04_t_try_extend_l3_k3 = try_extend_body::<3, 3>; c04_t_try_extend_l4_k1 = try_extend_body::<4, 1>;
        c04_t_try_extend_l4_k3 = try_extend_body::<4, 3>;
    }
    // (sequences of two symbolically chosen operations were measured and dropped: the second operation works
    // on a Vec whose length became symbolic -> 14 GB exhausted; histories are covered by the one-step
    // induction from an arbitrary state instead)

}
