//! C06 — selectors return a member of the given population or the documented error.
use std::num::NonZeroUsize;

use ec_core::individual::ec::EcIndividual;
use ec_core::operator::selector::best::Best;
use ec_core::operator::selector::dyn_weighted::{DynWeighted, DynWeightedError};
use ec_core::operator::selector::lexicase::{Lexicase, LexicaseError};
use ec_core::operator::selector::random::Random;
use ec_core::operator::selector::tournament::{Tournament, TournamentSizeError};
use ec_core::operator::selector::worst::Worst;
use ec_core::operator::selector::{DynSelector, EmptyPopulation, Select, Selector};
use ec_core::operator::Operator;
use ec_core::test_results::{Score, TestResults};
use ec_core::weighted::error::{SelectionError, WeightedPairError};
use ec_core::weighted::weighted_pair::WeightedPair;
use ec_core::weighted::with_weighted_item::WithWeightedItem;
use ec_core::weighted::Weighted;
use rand::RngCore;

use crate::symrng::{SymRng, TapeRng};

/// index j with ptr::eq(w, &pop[j]) -- identity, not value
pub fn member_index<T>(pop: &[T], w: &T) -> Option<usize> {
    let mut j = 0;
    while j < pop.len() {
        if std::ptr::eq(w, &pop[j]) {
            return Some(j);
        }
        j += 1;
    }
    None
}

pub fn best_worst_random_arr<const N: usize>(pop: [i32; N], rng: &mut SymRng) {
    match Best.select(&pop, rng) {
        Ok(w) => assert!(N > 0 && member_index(&pop, w).is_some(), "C06 Best: result is not an element of the given population"),
        Err(EmptyPopulation) => assert!(N == 0, "C06 Best: EmptyPopulation for a non-empty population"),
    }
    match Worst.select(&pop, rng) {
        Ok(w) => assert!(N > 0 && member_index(&pop, w).is_some(), "C06 Worst: result is not an element of the given population"),
        Err(EmptyPopulation) => assert!(N == 0, "C06 Worst: EmptyPopulation for a non-empty population"),
    }
    assert!(rng.draws() == 0, "C06 Best/Worst consumed randomness");
    match Random.select(&pop, rng) {
        Ok(w) => assert!(N > 0 && member_index(&pop, w).is_some(), "C06 Random: result is not an element of the given population"),
        Err(EmptyPopulation) => assert!(N == 0, "C06 Random: EmptyPopulation for a non-empty population"),
    }
}

pub type Ind = EcIndividual<u8, TestResults<Score<i64>>>;
/// individual with `nres` per-case results (all equal to `r`) and total `t`
pub fn ind(g: u8, nres: usize, r: i64, t: i64) -> Ind {
    let mut results = Vec::with_capacity(2);
    let mut i = 0;
    while i < nres {
        results.push(Score(r));
        i += 1;
    }
    EcIndividual::new(g, TestResults { results, total_result: Score(t) })
}

pub fn best_worst_random_vec<const N: usize>(totals: [i64; N], rng: &mut SymRng) {
    let mut pop: Vec<Ind> = Vec::with_capacity(N);
    let mut i = 0;
    while i < N {
        pop.push(ind(i as u8, 0, 0, totals[i]));
        i += 1;
    }
    match Best.select(&pop, rng) {
        Ok(w) => assert!(N > 0 && member_index(&pop, w).is_some(), "C06 Best(Vec): result is not an element of the given population"),
        Err(EmptyPopulation) => assert!(N == 0, "C06 Best(Vec): EmptyPopulation for a non-empty population"),
    }
    match Worst.select(&pop, rng) {
        Ok(w) => assert!(N > 0 && member_index(&pop, w).is_some(), "C06 Worst(Vec): result is not an element of the given population"),
        Err(EmptyPopulation) => assert!(N == 0, "C06 Worst(Vec): EmptyPopulation for a non-empty population"),
    }
    match Random.select(&pop, rng) {
        Ok(w) => assert!(N > 0 && member_index(&pop, w).is_some(), "C06 Random(Vec): result is not an element of the given population"),
        Err(EmptyPopulation) => assert!(N == 0, "C06 Random(Vec): EmptyPopulation for a non-empty population"),
    }
    std::mem::forget(pop);
}

pub fn tournament_arr<const N: usize, const K: usize>(pop: [i32; N], rng: &mut SymRng) {
    let k = NonZeroUsize::new(K).unwrap();
    match Tournament::new(k).select(&pop, rng) {
        Ok(w) => assert!(K <= N && member_index(&pop, w).is_some(), "C06 Tournament: result is not an element of the given population"),
        Err(e) => {
            assert!(N < K, "C06 Tournament: size error although the population is large enough");
            assert!(e == TournamentSizeError::new(k, N), "C06 Tournament: error payload");
        }
    }
}

/// lexicase with `M` configured cases over `N` individuals that each have `nres[i]` results
pub fn lexicase_vec<const N: usize, const M: usize>(nres: [usize; N], vals: [i64; N], rng: &mut SymRng) {
    let mut pop: Vec<Ind> = Vec::with_capacity(N);
    let mut i = 0;
    while i < N {
        pop.push(ind(i as u8, nres[i], vals[i], vals[i]));
        i += 1;
    }
    let r = Lexicase::new(M).select(&pop, rng);
    let mut some_missing = false;
    let mut i = 0;
    while i < N {
        if nres[i] < M {
            some_missing = true;
        }
        i += 1;
    }
    match r {
        Ok(w) => {
            assert!(N > 0, "C06 Lexicase: selected from an empty population");
            assert!(member_index(&pop, w).is_some(), "C06 Lexicase: result is not an element of the given population");
            // with M <= 1 every individual is consulted at the single case when N >= 2
            assert!(!(N >= 2 && M == 1 && some_missing), "C06 Lexicase: Ok although a consulted individual has no result for the case");
        }
        Err(LexicaseError::EmptyPopulation(_)) => assert!(N == 0, "C06 Lexicase: EmptyPopulation for a non-empty population"),
        Err(LexicaseError::MissingTestCase { total_cases, current_index }) => {
            assert!(N >= 2 && M == 1 && some_missing, "C06 Lexicase: MissingTestCase although every consulted result exists");
            assert!(total_cases == M && current_index == 0, "C06 Lexicase: MissingTestCase payload");
        }
    }
    std::mem::forget(pop);
}

/// weighted static combination of real selectors
pub fn weighted_real(pop: [i32; 3], a: u32, b: u32, c: u32, rng: &mut SymRng) {
    if a as u64 + b as u64 + c as u64 > u32::MAX as u64 {
        return;
    }
    let s = match Weighted::new(Best, a).with_item_and_weight(Worst, b).with_item_and_weight(Random, c) {
        Ok(s) => s,
        Err(_) => panic!("C06 weighted chain rejected"),
    };
    match s.select(&pop, rng) {
        Ok(w) => assert!(member_index(&pop, w).is_some() && (a > 0 || b > 0 || c > 0), "C06 weighted: result is not an element of the given population"),
        Err(SelectionError::ZeroWeight(_)) => assert!(a == 0 && b == 0 && c == 0, "C06 weighted: ZeroWeight although a weight is positive"),
        Err(SelectionError::Selector(_)) => panic!("C06 weighted: member error on a non-empty population"),
    }
    // same combination on an empty population: the member's documented error, never a panic
    let empty: [i32; 0] = [];
    match s.select(&empty, rng) {
        Ok(_) => panic!("C06 weighted: selected from an empty population"),
        Err(SelectionError::ZeroWeight(_)) => assert!(a == 0 && b == 0 && c == 0, "C06 weighted(empty): ZeroWeight although a weight is positive"),
        Err(SelectionError::Selector(_)) => assert!(a > 0 || b > 0 || c > 0, "C06 weighted(empty): member error with zero total"),
    }
}

pub fn dyn_weighted_real<const T: usize>(pop: [i32; 3], w: [usize; 3], rng: &mut TapeRng<T>) {
    let s: DynWeighted<[i32; 3]> = DynWeighted::new(Best, w[0]).with_selector(Worst, w[1]).with_selector(Random, w[2]);
    match s.select(&pop, rng) {
        Ok(x) => assert!(member_index(&pop, x).is_some() && w[0] + w[1] + w[2] > 0, "C06 DynWeighted: result is not an element of the given population"),
        Err(DynWeightedError::ZeroWeightSum(_)) => assert!(w[0] + w[1] + w[2] == 0, "C06 DynWeighted: zero-weight error although a weight is positive"),
        Err(_) => panic!("C06 DynWeighted: unexpected error"),
    }
    std::mem::forget(s);
}

/// wrappers and erased forms around real selectors
pub fn wrapped_select_ref(pop: [i32; 3], rng: &mut SymRng) {
    let sel = Select::new(&Best);
    match sel.apply(&pop, rng) {
        Ok(w) => assert!(member_index(&pop, w).is_some(), "C06 Select(&Best): not a member"),
        Err(_) => panic!("C06 Select(&Best) failed on a non-empty population"),
    }
    let sel = Select::new(&Random);
    match sel.apply(&pop, rng) {
        Ok(w) => assert!(member_index(&pop, w).is_some(), "C06 Select(&Random): not a member"),
        Err(_) => panic!("C06 Select(&Random) failed on a non-empty population"),
    }
}
pub fn erased_ref_random(pop: [i32; 3], rng: &mut SymRng) {
    let r: &dyn DynSelector<[i32; 3]> = &Random;
    match r.select(&pop, rng) {
        Ok(w) => assert!(member_index(&pop, w).is_some(), "C06 &dyn DynSelector: not a member"),
        Err(_) => panic!("C06 &dyn DynSelector failed on a non-empty population"),
    }
    let empty: [i32; 0] = [];
    let r0: &dyn DynSelector<[i32; 0]> = &Worst;
    assert!(r0.select(&empty, rng).is_err(), "C06 erased Worst on an empty population must report an error");
}
pub fn erased_box_tournament(pop: [i32; 3], rng: &mut SymRng) {
    let b: Box<dyn DynSelector<[i32; 3]> + Send + Sync> = Box::new(Tournament::binary());
    match b.select(&pop, rng) {
        Ok(w) => assert!(member_index(&pop, w).is_some(), "C06 Box<dyn DynSelector>: not a member"),
        Err(_) => panic!("C06 Box<dyn DynSelector> failed on a large enough population"),
    }
    std::mem::forget(b);
}

#[cfg(kani)]
mod proofs {
    use super::*;

    macro_rules! arr { ($($name:ident = <$n:literal>;)*) => {$(
        #[kani::proof]
        #[kani::unwind(7)]
        fn $name() {
            let mut rng = SymRng::new();
            best_worst_random_arr::<$n>(kani::any(), &mut rng);
            crate::witness!(true, "WITNESS reached");
        }
    )*}; }
    arr! { c06_bwr_arr_0 = <0>; c06_bwr_arr_1 = <1>; c06_bwr_arr_2 = <2>; c06_bwr_arr_3 = <3>; c06_bwr_arr_4 = <4>; }

    macro_rules! vecs { ($($name:ident = <$n:literal>;)*) => {$(
        #[kani::proof]
        #[kani::unwind(7)]
        fn $name() {
            let mut rng = SymRng::new();
            best_worst_random_vec::<$n>(kani::any(), &mut rng);
            crate::witness!(true, "WITNESS reached");
        }
    )*}; }
    vecs! { c06_bwr_vec_0 = <0>; c06_bwr_vec_1 = <1>; c06_bwr_vec_2 = <2>; c06_bwr_vec_3 = <3>; }

    macro_rules! tour { ($($name:ident = <$n:literal, $k:literal>;)*) => {$(
        #[kani::proof]
        #[kani::unwind(14)]
        fn $name() {
            let mut rng = SymRng::new();
            tournament_arr::<$n, $k>(kani::any(), &mut rng);
            crate::witness!(true, "WITNESS reached");
        }
    )*}; }
    tour! {
        c06_tournament_0_1 = <0, 1>; c06_tournament_1_1 = <1, 1>; c06_tournament_1_2 = <1, 2>;
        c06_tournament_2_1 = <2, 1>; c06_tournament_2_2 = <2, 2>; c06_tournament_2_3 = <2, 3>;
        c06_tournament_3_2 = <3, 2>; c06_tournament_3_3 = <3, 3>; c06_tournament_4_2 = <4, 2>;
        c06_tournament_4_3 = <4, 3>; c06_tournament_4_5 = <4, 5>;
    }
    #[cfg(feature = "thorough")]
    tour! {
        c06_t_tournament_3_1 = <3, 1>; c06_t_tournament_3_4 = <3, 4>; c06_t_tournament_4_1 = <4, 1>;
        c06_t_tournament_4_4 = <4, 4>; c06_t_tournament_5_2 = <5, 2>; c06_t_tournament_5_3 = <5, 3>;
    }

    macro_rules! lexi { ($($name:ident = <$n:literal, $m:literal>;)*) => {$(
        #[kani::proof]
        #[kani::unwind(14)]
        fn $name() {
            let mut rng = SymRng::new();
            let nres: [usize; $n] = kani::any();
            let mut i = 0;
            while i < $n { kani::assume(nres[i] <= 2); i += 1; }
            lexicase_vec::<$n, $m>(nres, kani::any(), &mut rng);
            crate::witness!(true, "WITNESS reached");
        }
    )*}; }
    lexi! { c06_lexicase_0_0 = <0, 0>; c06_lexicase_0_1 = <0, 1>; c06_lexicase_1_0 = <1, 0>; c06_lexicase_1_1 = <1, 1>; c06_lexicase_2_1 = <2, 1>; }
    #[cfg(feature = "thorough")]
    lexi! { c06_t_lexicase_2_0 = <2, 0>; c06_t_lexicase_3_1 = <3, 1>; }

    #[kani::proof]
    #[kani::unwind(14)]
    fn c06_weighted_real() {
        let mut rng = SymRng::new();
        let (a, b, c): (u32, u32, u32) = (kani::any(), kani::any(), kani::any());
        kani::assume(a <= 3 && b <= 3 && c <= 3);
        weighted_real(kani::any(), a, b, c, &mut rng);
        crate::witness!(a == 0 && b == 0 && c == 0, "WITNESS all-zero weights");
        crate::witness!(a == 0 && b == 0 && c == 3, "WITNESS only the last member has weight");
    }
    #[kani::proof]
    #[kani::unwind(8)]
    fn c06_dyn_weighted_real() {
        let mut rng = TapeRng::<4>::any();
        let w: [usize; 3] = kani::any();
        kani::assume(w[0] <= 2 && w[1] <= 2 && w[2] <= 2);
        dyn_weighted_real(kani::any(), w, &mut rng);
        crate::witness!(w[0] == 0 && w[1] == 0 && w[2] == 0, "WITNESS all-zero weights");
        crate::witness!(w[2] == 2 && w[0] == 0, "WITNESS random member");
    }
    #[kani::proof]
    #[kani::unwind(8)]
    fn c06_wrapped_select_ref() {
        let mut rng = SymRng::new();
        wrapped_select_ref(kani::any(), &mut rng);
        crate::witness!(true, "WITNESS reached");
    }
    #[kani::proof]
    #[kani::unwind(8)]
    fn c06_erased_ref_random() {
        let mut rng = SymRng::new();
        erased_ref_random(kani::any(), &mut rng);
        crate::witness!(true, "WITNESS reached");
    }
    #[kani::proof]
    #[kani::unwind(14)]
    fn c06_erased_box_tournament() {
        let mut rng = SymRng::new();
        erased_box_tournament(kani::any(), &mut rng);
        crate::witness!(true, "WITNESS reached");
    }
}
