//! C07 — best / worst / tournament apply the intended selection pressure.
use std::cmp::Ordering;
use std::num::NonZeroUsize;

use ec_core::individual::ec::EcIndividual;
use ec_core::operator::selector::best::Best;
use ec_core::operator::selector::tournament::Tournament;
use ec_core::operator::selector::worst::Worst;
use ec_core::operator::selector::Selector;
use ec_core::test_results::{Error, Score, TestResults};

use crate::symrng::{SymRng, TapeRng};

pub fn best_worst_arr<const N: usize>(pop: [i32; N], rng: &mut SymRng) {
    let b = Best.select(&pop, rng).unwrap();
    let w = Worst.select(&pop, rng).unwrap();
    let mut j = 0;
    while j < N {
        assert!(pop[j] <= *b, "C07 Best returned a non-maximal individual");
        assert!(pop[j] >= *w, "C07 Worst returned a non-minimal individual");
        j += 1;
    }
}

/// individuals ordered by their total result; both polarities
pub fn best_worst_ind<const N: usize>(totals: [i64; N], rng: &mut SymRng) {
    let mut ps: Vec<EcIndividual<u8, TestResults<Score<i64>>>> = Vec::with_capacity(N);
    let mut pe: Vec<EcIndividual<u8, TestResults<Error<i64>>>> = Vec::with_capacity(N);
    let mut i = 0;
    while i < N {
        ps.push(EcIndividual::new(i as u8, TestResults { results: Vec::new(), total_result: Score(totals[i]) }));
        pe.push(EcIndividual::new(i as u8, TestResults { results: Vec::new(), total_result: Error(totals[i]) }));
        i += 1;
    }
    let bs = Best.select(&ps, rng).unwrap().test_results.total_result.0;
    let ws = Worst.select(&ps, rng).unwrap().test_results.total_result.0;
    let be = Best.select(&pe, rng).unwrap().test_results.total_result.0;
    let we = Worst.select(&pe, rng).unwrap().test_results.total_result.0;
    let mut j = 0;
    while j < N {
        assert!(totals[j] <= bs, "C07 Best (scores): a higher score exists");
        assert!(totals[j] >= ws, "C07 Worst (scores): a lower score exists");
        assert!(totals[j] >= be, "C07 Best (errors): a smaller error exists");
        assert!(totals[j] <= we, "C07 Worst (errors): a larger error exists");
        j += 1;
    }
    std::mem::forget((ps, pe));
}

// ---- tournament: individuals whose Ord logs which ids were compared (= the sampled set) ----
pub static mut SEEN: [bool; 8] = [false; 8];
pub static mut NCMP: usize = 0;

#[derive(Debug, Clone, Copy, PartialEq, Eq)]
pub struct LI {
    pub id: u8,
    pub val: u8,
}
impl PartialOrd for LI {
    fn partial_cmp(&self, o: &Self) -> Option<Ordering> {
        Some(self.cmp(o))
    }
}
impl Ord for LI {
    fn cmp(&self, o: &Self) -> Ordering {
        unsafe {
            SEEN[self.id as usize] = true;
            SEEN[o.id as usize] = true;
            NCMP += 1;
        }
        self.val.cmp(&o.val)
    }
}

pub fn reset_seen() {
    unsafe {
        SEEN = [false; 8];
        NCMP = 0;
    }
}

/// runs a tournament of size K over N logged individuals; returns (winner index, sampled-set bitmask)
pub fn run_tournament<const N: usize, const K: usize, R: rand::RngCore>(vals: [u8; N], rng: &mut R) -> (usize, u32) {
    reset_seen();
    let mut pop = [LI { id: 0, val: 0 }; N];
    let mut i = 0;
    while i < N {
        pop[i] = LI { id: i as u8, val: vals[i] };
        i += 1;
    }
    let w = match Tournament::new(NonZeroUsize::new(K).unwrap()).select(&pop, rng) {
        Ok(w) => *w,
        Err(_) => panic!("C07 tournament of size <= population size failed"),
    };
    let widx = w.id as usize;
    assert!(widx < N && pop[widx].val == w.val, "C07 tournament winner is not a population member");
    // sampled set S: ids seen by max(); for K = 1 no comparison happens and S = {winner}
    let mut mask: u32 = 0;
    let mut cnt = 0;
    let mut i = 0;
    while i < N {
        let seen = unsafe { SEEN[i] } || (K == 1 && i == widx);
        if seen {
            mask |= 1 << i;
            cnt += 1;
            // the winner is the best of the sampled individuals
            assert!(vals[i] <= w.val, "C07 tournament winner is not the best of the sampled individuals");
        }
        i += 1;
    }
    assert!(cnt == K, "C07 tournament did not compare exactly k distinct individuals");
    assert!(mask & (1 << widx) != 0, "C07 tournament winner is not among the sampled individuals");
    if K > 1 {
        assert!(unsafe { NCMP } == K - 1, "C07 tournament: number of comparisons");
    }
    // consequence: at least k-1 other members are no better than the winner
    let mut no_better = 0;
    let mut i = 0;
    while i < N {
        if i != widx && vals[i] <= w.val {
            no_better += 1;
        }
        i += 1;
    }
    assert!(no_better >= K - 1, "C07 tournament winner is not at least as good as k-1 others");
    if K == N {
        let mut i = 0;
        while i < N {
            assert!(vals[i] <= w.val, "C07 tournament over the whole population is not best selection");
            i += 1;
        }
    }
    (widx, mask)
}

/// plain value populations (equal values at different positions ARE equal individuals): the winner
/// must still be at least as good as k-1 OTHER members (by position), and the best when k = n.
/// Catches implementations that confuse equal individuals with the same individual.
pub fn run_tournament_plain<const N: usize, const K: usize, R: rand::RngCore>(vals: [u8; N], rng: &mut R) {
    let w = match Tournament::new(NonZeroUsize::new(K).unwrap()).select(&vals, rng) {
        Ok(w) => w,
        Err(_) => panic!("C07 tournament of size <= population size failed"),
    };
    let mut widx = N;
    let mut i = 0;
    while i < N {
        if std::ptr::eq(w, &vals[i]) {
            widx = i;
        }
        i += 1;
    }
    assert!(widx < N, "C07 tournament winner is not a population member");
    let mut no_better = 0;
    let mut i = 0;
    while i < N {
        if i != widx && vals[i] <= *w {
            no_better += 1;
        }
        i += 1;
    }
    assert!(no_better >= K - 1, "C07 tournament winner (duplicate-laden population) is not at least as good as k-1 others");
    if K == N {
        let mut i = 0;
        while i < N {
            assert!(vals[i] <= *w, "C07 tournament over the whole population (with duplicates) is not best selection");
            i += 1;
        }
    }
}

/// the sampled set does not depend on the individuals' values (same stream => same set)
pub fn sampled_set_independent<const N: usize, const K: usize, const T: usize>(v1: [u8; N], v2: [u8; N], tape: TapeRng<T>) {
    let mut r1 = tape.clone();
    let mut r2 = tape;
    let (_, m1) = run_tournament::<N, K, _>(v1, &mut r1);
    let (_, m2) = run_tournament::<N, K, _>(v2, &mut r2);
    assert!(m1 == m2, "C07 tournament: which individuals are sampled depends on their values");
    assert!(r1.cursor == r2.cursor, "C07 tournament: stream consumption depends on the values");
}

#[cfg(kani)]
mod proofs {
    use super::*;

    macro_rules! bw { ($($name:ident / $iname:ident = <$n:literal>;)*) => {$(
        #[kani::proof]
        #[kani::unwind(7)]
        fn $name() {
            let mut rng = SymRng::new();
            best_worst_arr::<$n>(kani::any(), &mut rng);
            crate::witness!(true, "WITNESS reached");
        }
        #[kani::proof]
        #[kani::unwind(7)]
        fn $iname() {
            let mut rng = SymRng::new();
            best_worst_ind::<$n>(kani::any(), &mut rng);
            crate::witness!(true, "WITNESS reached");
        }
    )*}; }
    bw! { c07_best_worst_arr_1 / c07_best_worst_ind_1 = <1>; c07_best_worst_arr_2 / c07_best_worst_ind_2 = <2>;
          c07_best_worst_arr_3 / c07_best_worst_ind_3 = <3>; c07_best_worst_arr_4 / c07_best_worst_ind_4 = <4>; }

    // every k-subset can be the sampled set: covers over all masks with k bits (n <= 4)
    macro_rules! subset_covers { ($m:expr, $n:literal, $k:literal) => {{
        let m = $m;
        crate::witness!(m == (1u32 << $k) - 1, "PROP tournament: the first k individuals can be the sampled set");
        crate::witness!(m == ((1u32 << $k) - 1) << ($n - $k), "PROP tournament: the last k individuals can be the sampled set");
        crate::witness!($k != 2 || $n < 3 || m == 0b101, "PROP tournament: subset {0,2} can be sampled");
        crate::witness!($k != 2 || $n < 4 || m == 0b1001, "PROP tournament: subset {0,3} can be sampled");
        crate::witness!($k != 2 || $n < 4 || m == 0b0110, "PROP tournament: subset {1,2} can be sampled");
        crate::witness!($k != 2 || $n < 4 || m == 0b1010, "PROP tournament: subset {1,3} can be sampled");
        crate::witness!($k != 3 || $n < 4 || m == 0b1011, "PROP tournament: subset {0,1,3} can be sampled");
        crate::witness!($k != 3 || $n < 4 || m == 0b1101, "PROP tournament: subset {0,2,3} can be sampled");
        crate::witness!($k != 1 || $n < 3 || m == 0b010, "PROP tournament: the middle individual can be sampled alone");
    }}; }

    macro_rules! tour { ($($name:ident = <$n:literal, $k:literal>;)*) => {$(
        #[kani::proof]
        #[kani::unwind(14)]
        fn $name() {
            let mut rng = SymRng::new();
            let (_, mask) = run_tournament::<$n, $k, _>(kani::any(), &mut rng);
            subset_covers!(mask, $n, $k);
        }
    )*}; }
    tour! {
        c07_tournament_1_1 = <1, 1>; c07_tournament_2_1 = <2, 1>; c07_tournament_2_2 = <2, 2>;
        c07_tournament_3_1 = <3, 1>; c07_tournament_3_2 = <3, 2>; c07_tournament_3_3 = <3, 3>;
        c07_tournament_4_2 = <4, 2>; c07_tournament_4_3 = <4, 3>;
    }
    #[cfg(feature = "thorough")]
    tour! { c07_t_tournament_4_1 = <4, 1>; c07_t_tournament_4_4 = <4, 4>; c07_t_tournament_5_2 = <5, 2>; c07_t_tournament_5_3 = <5, 3>; c07_t_tournament_5_4 = <5, 4>; }

    macro_rules! plain { ($($name:ident = <$n:literal, $k:literal>;)*) => {$(
        #[kani::proof]
        #[kani::unwind(14)]
        fn $name() {
            let mut rng = SymRng::new();
            let vals: [u8; $n] = kani::any();
            run_tournament_plain::<$n, $k, _>(vals, &mut rng);
            crate::witness!($n < 2 || vals[0] == vals[1], "WITNESS duplicate individuals");
        }
    )*}; }
    plain! { c07_plain_3_2 = <3, 2>; c07_plain_4_3 = <4, 3>; c07_plain_4_2 = <4, 2>; c07_plain_3_3 = <3, 3>; }

    // concrete duplicate-laden populations, symbolic stream (cheap even when the selector's code is heavy)
    macro_rules! duptab { ($($name:ident = <$n:literal, $k:literal> $vals:expr;)*) => {$(
        #[kani::proof]
        #[kani::unwind(14)]
        fn $name() {
            let mut rng = SymRng::new();
            run_tournament_plain::<$n, $k, _>($vals, &mut rng);
            crate::witness!(true, "WITNESS reached");
        }
    )*}; }
    duptab! {
        c07_duptab_4_3_a = <4, 3> [5, 5, 1, 1];
        c07_duptab_4_3_b = <4, 3> [1, 5, 1, 5];
        c07_duptab_3_2 = <3, 2> [7, 2, 7];
        c07_duptab_4_2 = <4, 2> [3, 3, 3, 9];
    }

    macro_rules! indep { ($($name:ident = <$n:literal, $k:literal>;)*) => {$(
        #[kani::proof]
        #[kani::unwind(14)]
        fn $name() {
            let tape = TapeRng::<6>::any();
            sampled_set_independent::<$n, $k, 6>(kani::any(), kani::any(), tape);
            crate::witness!(true, "WITNESS reached");
        }
    )*}; }
    indep! { c07_independent_3_2 = <3, 2>; c07_independent_4_2 = <4, 2>; }
    #[cfg(feature = "thorough")]
    indep! { c07_t_independent_4_3 = <4, 3>; c07_t_independent_3_1 = <3, 1>; }
}
