//! C10 — crossover recombines parental genes position-wise and reports misuse as errors.
use ec_core::operator::recombinator::Recombinator;
use ec_linear::genome::bitstring::Bitstring;
use ec_linear::genome::Linear;
use ec_linear::recombinator::crossover::Crossover;
use ec_linear::recombinator::errors::{CrossoverGeneError, DifferentGenomeLength};
use ec_linear::recombinator::two_point_xo::TwoPointXo;
use ec_linear::recombinator::uniform_xo::UniformXo;

use crate::symrng::SymRng;

/// tagged parents: gene value = parent*16 + position
pub fn parent_vec(parent: u8, len: usize) -> Vec<u8> {
    let mut v = Vec::with_capacity(len);
    let mut i = 0;
    while i < len {
        v.push(parent * 16 + i as u8);
        i += 1;
    }
    v
}
pub fn parent_bits(parent: bool, len: usize) -> Bitstring {
    let mut v = Vec::with_capacity(len);
    let mut i = 0;
    while i < len {
        v.push(parent);
        i += 1;
    }
    Bitstring { bits: v }
}

/// from_second[i] for a child of tagged parents; panics (assert) if a gene is neither parent's
pub fn origin_vec<const L: usize>(child: &[u8]) -> [bool; L] {
    assert!(child.len() == L, "C10 child length differs from the parents' length");
    let mut o = [false; L];
    let mut i = 0;
    while i < L {
        let g = child[i];
        assert!(g == i as u8 || g == 16 + i as u8, "C10 child gene is not the gene a parent had at that position");
        o[i] = g == 16 + i as u8;
        i += 1;
    }
    o
}
pub fn origin_bits<const L: usize>(child: &Bitstring) -> [bool; L] {
    assert!(child.bits.len() == L, "C10 child length differs from the parents' length");
    let mut o = [false; L];
    let mut i = 0;
    while i < L {
        o[i] = child.bits[i];
        i += 1;
    }
    o
}

/// the positions taken from the second parent form one contiguous run; returns (start, end)
pub fn segment_of<const L: usize>(o: &[bool; L]) -> (usize, usize) {
    let mut start = L;
    let mut end = L;
    let mut i = 0;
    while i < L {
        if o[i] && start == L {
            start = i;
        }
        i += 1;
    }
    if start == L {
        return (0, 0); // empty segment
    }
    end = start;
    while end < L && o[end] {
        end += 1;
    }
    let mut j = end;
    while j < L {
        assert!(!o[j], "C10 two-point crossover: genes from the second parent are not one contiguous segment");
        j += 1;
    }
    (start, end)
}

macro_rules! seg_covers {
    ($o:expr, $L:expr) => {{
        let (s, e) = segment_of(&$o);
        // every segment [i, j) with 0 <= i < j <= L, and the empty one, can occur
        crate::witness!(s == e, "PROP two-point: empty segment occurs");
        crate::witness!($L < 1 || (s == 0 && e == 1), "PROP two-point: segment [0,1) occurs");
        crate::witness!($L < 1 || (s == 0 && e == $L), "PROP two-point: whole-genome segment [0,L) occurs");
        crate::witness!($L < 1 || (s + 1 == $L && e == $L), "PROP two-point: segment [L-1,L) touching the end occurs");
        crate::witness!($L < 2 || (s == 1 && e == $L), "PROP two-point: segment [1,L) touching the end occurs");
        crate::witness!($L < 2 || (s == 0 && e + 1 == $L), "PROP two-point: segment [0,L-1) occurs");
        crate::witness!($L < 3 || (s == 1 && e == 2), "PROP two-point: inner segment [1,2) occurs");
        crate::witness!($L < 4 || (s == 1 && e == 3), "PROP two-point: inner segment [1,3) occurs");
        crate::witness!($L < 4 || (s == 2 && e == 4), "PROP two-point: segment [2,4) occurs");
    }};
}

pub fn two_point_vec_arr<const L: usize>(rng: &mut SymRng) -> [bool; L] {
    let r = TwoPointXo.recombine([parent_vec(0, L), parent_vec(1, L)], rng);
    match r {
        Ok(child) => {
            let o = origin_vec::<L>(&child);
            std::mem::forget(child);
            o
        }
        Err(_) => panic!("C10 two-point crossover of equal-length parents failed"),
    }
}
pub fn two_point_vec_tuple<const L: usize>(rng: &mut SymRng) -> [bool; L] {
    let r = TwoPointXo.recombine((parent_vec(0, L), parent_vec(1, L)), rng);
    match r {
        Ok(child) => {
            let o = origin_vec::<L>(&child);
            std::mem::forget(child);
            o
        }
        Err(_) => panic!("C10 two-point crossover of equal-length parents failed"),
    }
}
pub fn two_point_bits_arr<const L: usize>(rng: &mut SymRng) -> [bool; L] {
    let r = TwoPointXo.recombine([parent_bits(false, L), parent_bits(true, L)], rng);
    match r {
        Ok(child) => {
            let o = origin_bits::<L>(&child);
            std::mem::forget(child);
            o
        }
        Err(_) => panic!("C10 two-point crossover of equal-length bitstrings failed"),
    }
}
pub fn two_point_bits_tuple<const L: usize>(rng: &mut SymRng) -> [bool; L] {
    let r = TwoPointXo.recombine((parent_bits(false, L), parent_bits(true, L)), rng);
    match r {
        Ok(child) => {
            let o = origin_bits::<L>(&child);
            std::mem::forget(child);
            o
        }
        Err(_) => panic!("C10 two-point crossover of equal-length bitstrings failed"),
    }
}

/// uniform crossover: exactly L draws, position i decided by draw i alone (top bit of the i-th u32)
pub fn uniform_vec<const L: usize>(tuple: bool, rng: &mut SymRng) {
    let r = if tuple {
        UniformXo.recombine((parent_vec(0, L), parent_vec(1, L)), rng)
    } else {
        UniformXo.recombine([parent_vec(0, L), parent_vec(1, L)], rng)
    };
    match r {
        Ok(child) => {
            let o = origin_vec::<L>(&child);
            assert!(rng.draws() == L && rng.draws32 == L, "C10/C12 uniform crossover: one 32-bit draw per position");
            let mut i = 0;
            while i < L {
                let top = (rng.log[i] >> 31) & 1 == 1;
                // Vec flavour: `if random::<bool>() { first } else { second }`
                assert!(o[i] == !top, "C10/C12 uniform crossover (Vec): position i is decided by draw i alone, P = 1/2");
                i += 1;
            }
            std::mem::forget(child);
        }
        Err(_) => panic!("C10 uniform crossover of equal-length parents failed"),
    }
}
pub fn uniform_bits<const L: usize>(tuple: bool, rng: &mut SymRng) {
    let r = if tuple {
        UniformXo.recombine((parent_bits(false, L), parent_bits(true, L)), rng)
    } else {
        UniformXo.recombine([parent_bits(false, L), parent_bits(true, L)], rng)
    };
    match r {
        Ok(child) => {
            let o = origin_bits::<L>(&child);
            assert!(rng.draws() == L && rng.draws32 == L, "C10/C12 uniform crossover: one 32-bit draw per position");
            let mut i = 0;
            while i < L {
                let top = (rng.log[i] >> 31) & 1 == 1;
                // Crossover flavour: `if random::<bool>() { swap gene i }`
                assert!(o[i] == top, "C10/C12 uniform crossover (Bitstring): position i is decided by draw i alone, P = 1/2");
                i += 1;
            }
            std::mem::forget(child);
        }
        Err(_) => panic!("C10 uniform crossover of equal-length bitstrings failed"),
    }
}

/// parents of different lengths -> DifferentGenomeLength(la, lb), never a panic
pub fn unequal<const LA: usize, const LB: usize>(rng: &mut SymRng) {
    match TwoPointXo.recombine([parent_vec(0, LA), parent_vec(1, LB)], rng) {
        Err(DifferentGenomeLength(a, b)) => assert!(a == LA && b == LB, "C10 two-point Vec: error payload"),
        Ok(_) => panic!("C10 two-point Vec: parents of different lengths accepted"),
    }
    match UniformXo.recombine((parent_vec(0, LA), parent_vec(1, LB)), rng) {
        Err(DifferentGenomeLength(a, b)) => assert!(a == LA && b == LB, "C10 uniform Vec: error payload"),
        Ok(_) => panic!("C10 uniform Vec: parents of different lengths accepted"),
    }
    match TwoPointXo.recombine((parent_bits(false, LA), parent_bits(true, LB)), rng) {
        Err(CrossoverGeneError::DifferentGenomeLength(DifferentGenomeLength(a, b))) => {
            assert!(a == LA && b == LB, "C10 two-point Bitstring: error payload")
        }
        Err(_) => panic!("C10 two-point Bitstring: wrong error kind for different lengths"),
        Ok(_) => panic!("C10 two-point Bitstring: parents of different lengths accepted"),
    }
    match UniformXo.recombine([parent_bits(false, LA), parent_bits(true, LB)], rng) {
        Err(CrossoverGeneError::DifferentGenomeLength(DifferentGenomeLength(a, b))) => {
            assert!(a == LA && b == LB, "C10 uniform Bitstring: error payload")
        }
        Err(_) => panic!("C10 uniform Bitstring: wrong error kind for different lengths"),
        Ok(_) => panic!("C10 uniform Bitstring: parents of different lengths accepted"),
    }
}

/// exchange primitives on bitstrings of lengths LA, LB with arbitrary contents
pub fn exchange_gene<const LA: usize, const LB: usize>(xa: [bool; LA], xb: [bool; LB], index: usize) {
    let mut a = Bitstring { bits: xa.to_vec() };
    let mut b = Bitstring { bits: xb.to_vec() };
    let r = a.crossover_gene(&mut b, index);
    assert!(a.bits.len() == LA && b.bits.len() == LB, "C10 crossover_gene changed a length");
    let in_range = index < LA && index < LB;
    assert!(r.is_ok() == in_range, "C10 crossover_gene: Ok iff the index addresses both genomes");
    let mut i = 0;
    while i < LA {
        let expect = if in_range && i == index { xb[i] } else { xa[i] };
        assert!(a.bits[i] == expect, "C10 crossover_gene: first genome differs from 'swap exactly the addressed gene'");
        i += 1;
    }
    let mut i = 0;
    while i < LB {
        let expect = if in_range && i == index { xa[i] } else { xb[i] };
        assert!(b.bits[i] == expect, "C10 crossover_gene: second genome differs from 'swap exactly the addressed gene'");
        i += 1;
    }
    std::mem::forget((a, b, r));
}

pub fn exchange_segment<const LA: usize, const LB: usize>(xa: [bool; LA], xb: [bool; LB], start: usize, end: usize) {
    let mut a = Bitstring { bits: xa.to_vec() };
    let mut b = Bitstring { bits: xb.to_vec() };
    let r = a.crossover_segment(&mut b, start..end);
    assert!(a.bits.len() == LA && b.bits.len() == LB, "C10 crossover_segment changed a length");
    let min = if LA < LB { LA } else { LB };
    let well_formed = start <= end;
    let in_range = well_formed && end <= min;
    if well_formed {
        assert!(r.is_ok() == in_range, "C10 crossover_segment: Ok iff the range lies inside both genomes");
    }
    // (a reversed range start > end must not panic; whether it is Ok(no-op) or Err is left open)
    let swapped = r.is_ok() && in_range;
    if !well_formed && r.is_ok() {
        // nothing may have changed
    }
    let mut i = 0;
    while i < LA {
        let expect = if swapped && i >= start && i < end { xb[i] } else { xa[i] };
        assert!(a.bits[i] == expect, "C10 crossover_segment: first genome differs from 'swap exactly the addressed genes'");
        i += 1;
    }
    let mut i = 0;
    while i < LB {
        let expect = if swapped && i >= start && i < end { xa[i] } else { xb[i] };
        assert!(b.bits[i] == expect, "C10 crossover_segment: second genome differs from 'swap exactly the addressed genes'");
        i += 1;
    }
    std::mem::forget((a, b, r));
}

#[cfg(kani)]
mod proofs {
    use super::*;

    macro_rules! two_point {
        ($($name:ident = $f:ident::<$l:literal>;)*) => {$(
            #[kani::proof]
            #[kani::unwind(7)]
            fn $name() {
                let mut rng = SymRng::new();
                let o = $f::<$l>(&mut rng);
                seg_covers!(o, $l);
            }
        )*};
    }
    two_point! {
        c10_two_point_vec_arr_l0 = two_point_vec_arr::<0>; c10_two_point_vec_arr_l1 = two_point_vec_arr::<1>;
        c10_two_point_vec_arr_l2 = two_point_vec_arr::<2>; c10_two_point_vec_arr_l3 = two_point_vec_arr::<3>;
        c10_two_point_vec_arr_l4 = two_point_vec_arr::<4>;
        c10_two_point_vec_tuple_l0 = two_point_vec_tuple::<0>; c10_two_point_vec_tuple_l3 = two_point_vec_tuple::<3>;
        c10_two_point_bits_arr_l0 = two_point_bits_arr::<0>; c10_two_point_bits_arr_l1 = two_point_bits_arr::<1>;
        c10_two_point_bits_arr_l2 = two_point_bits_arr::<2>; c10_two_point_bits_arr_l3 = two_point_bits_arr::<3>;
        c10_two_point_bits_arr_l4 = two_point_bits_arr::<4>;
        c10_two_point_bits_tuple_l0 = two_point_bits_tuple::<0>; c10_two_point_bits_tuple_l2 = two_point_bits_tuple::<2>;
    }

    macro_rules! uniform {
        ($($name:ident = $f:ident::<$l:literal>;)*) => {$(
            #[kani::proof]
            #[kani::unwind(7)]
            fn $name() {
                let mut rng = SymRng::new();
                let tuple: bool = kani::any();
                $f::<$l>(tuple, &mut rng);
                crate::witness!(tuple, "WITNESS tuple flavour");
                crate::witness!(!tuple, "WITNESS array flavour");
            }
        )*};
    }
    uniform! {
        c10_uniform_vec_l0 = uniform_vec::<0>; c10_uniform_vec_l1 = uniform_vec::<1>; c10_uniform_vec_l2 = uniform_vec::<2>;
        c10_uniform_vec_l3 = uniform_vec::<3>; c10_uniform_vec_l4 = uniform_vec::<4>;
        c10_uniform_bits_l0 = uniform_bits::<0>; c10_uniform_bits_l1 = uniform_bits::<1>; c10_uniform_bits_l2 = uniform_bits::<2>;
        c10_uniform_bits_l3 = uniform_bits::<3>; c10_uniform_bits_l4 = uniform_bits::<4>;
    }

    macro_rules! uneq {
        ($($name:ident = <$a:literal, $b:literal>;)*) => {$(
            #[kani::proof]
            #[kani::unwind(6)]
            fn $name() {
                let mut rng = SymRng::new();
                unequal::<$a, $b>(&mut rng);
                crate::witness!(true, "WITNESS reached");
            }
        )*};
    }
    uneq! { c10_unequal_0_1 = <0, 1>; c10_unequal_1_0 = <1, 0>; c10_unequal_2_3 = <2, 3>; c10_unequal_3_1 = <3, 1>; }
    #[cfg(feature = "thorough")]
    uneq! { c10_t_unequal_0_2 = <0, 2>; c10_t_unequal_0_3 = <0, 3>; c10_t_unequal_1_2 = <1, 2>; c10_t_unequal_1_3 = <1, 3>;
            c10_t_unequal_2_0 = <2, 0>; c10_t_unequal_2_1 = <2, 1>; c10_t_unequal_3_0 = <3, 0>; c10_t_unequal_3_2 = <3, 2>; }

    macro_rules! exch {
        ($($gname:ident / $sname:ident = <$a:literal, $b:literal>;)*) => {$(
            #[kani::proof]
            #[kani::unwind(6)]
            fn $gname() {
                let index: usize = kani::any();
                exchange_gene::<$a, $b>(kani::any(), kani::any(), index);
                crate::witness!(index >= $a || index >= $b, "WITNESS out-of-range index");
                crate::witness!(index == 0, "WITNESS index 0");
            }
            #[kani::proof]
            #[kani::unwind(6)]
            fn $sname() {
                let (start, end): (usize, usize) = (kani::any(), kani::any());
                exchange_segment::<$a, $b>(kani::any(), kani::any(), start, end);
                crate::witness!(start <= end && end > $a, "WITNESS range beyond the first genome");
                crate::witness!(start > end, "WITNESS reversed range");
                crate::witness!(start == 0 && end == 0, "WITNESS empty range");
            }
        )*};
    }
    exch! {
        c10_exchange_gene_0_0 / c10_exchange_segment_0_0 = <0, 0>;
        c10_exchange_gene_1_1 / c10_exchange_segment_1_1 = <1, 1>;
        c10_exchange_gene_2_3 / c10_exchange_segment_2_3 = <2, 3>;
        c10_exchange_gene_3_2 / c10_exchange_segment_3_2 = <3, 2>;
        c10_exchange_gene_3_3 / c10_exchange_segment_3_3 = <3, 3>;
    }
    #[cfg(feature = "thorough")]
    exch! {
        c10_t_exchange_gene_0_2 / c10_t_exchange_segment_0_2 = <0, 2>;
        c10_t_exchange_gene_2_0 / c10_t_exchange_segment_2_0 = <2, 0>;
        c10_t_exchange_gene_1_3 / c10_t_exchange_segment_1_3 = <1, 3>;
        c10_t_exchange_gene_2_2 / c10_t_exchange_segment_2_2 = <2, 2>;
        c10_t_exchange_gene_4_4 / c10_t_exchange_segment_4_4 = <4, 4>;
        c10_t_exchange_gene_4_2 / c10_t_exchange_segment_4_2 = <4, 2>;
    }
}
