//! C11 -- mutation keeps genome structure; C12 -- configured probabilities are the probabilities
//! applied (measure characterisation: a decision taken from one uniform word w happens iff w lies
//! in the interval the configured rate prescribes, for ALL w and a symbolic rate).
//! `c11_*` harnesses assert the structural clauses, `c12_*` harnesses the rate laws.
use std::cell::Cell;
use std::num::NonZeroUsize;

use ec_core::distributions::choices::ChoicesDistribution;
use ec_core::operator::mutator::Mutator;
use ec_linear::genome::bitstring::{Bitstring, BoolGenerator};
use ec_linear::genome::vector::Vector;
use ec_linear::mutator::umad::Umad;
use ec_linear::mutator::with_one_over_length::WithOneOverLength;
use ec_linear::mutator::with_rate::WithRate;
use push::genome::plushy::{ConvertToGeneGenerator, GeneGenerator, PushGene};
use push::instruction::{IntInstruction, PushInstruction};
use rand::distr::Distribution;
use rand::Rng;

use crate::symrng::SymRng;

/// rand 0.9.0 `random::<f32>()` = (next_u32 >> 8) * 2^-24; `r < rate`  <=>  (w >> 8) < ceil(rate * 2^24)
/// (rate * 2^24 is exact in f32): the flip probability is ceil(rate*2^24)/2^24, within 2^-24 of rate.
pub fn f32_threshold(rate: f32) -> u32 {
    if !(rate > 0.0) {
        return 0; // 0, negative, NaN: never
    }
    if rate >= 1.0 {
        return 1 << 24; // always
    }
    let x = rate * 16777216.0_f32;
    let t = x as u32; // truncation
    if (t as f32) < x { t + 1 } else { t }
}
pub fn flips(w32: u64, rate: f32) -> bool {
    ((w32 as u32) >> 8) < f32_threshold(rate)
}

/// rand 0.9.0 `random_bool(p)`: p == 1 -> true without a draw; else next_u64 < floor(p * 2^64)
pub fn coin(rng_log: &[u64; 8], cursor: &mut usize, p: f64) -> bool {
    if p == 1.0 {
        return true;
    }
    let w = rng_log[*cursor];
    *cursor += 1;
    w < (p * 18446744073709551616.0_f64) as u64
}

#[derive(Clone, Copy, PartialEq)]
pub enum Flavour {
    VecBool,
    Bitstring,
}

pub fn run_with_rate<const L: usize>(g: [bool; L], rate: f32, fl: Flavour, one_over_len: bool, rng: &mut SymRng) -> [bool; L] {
    let out: Vec<bool> = match (fl, one_over_len) {
        (Flavour::VecBool, false) => WithRate::new(rate).mutate(g.to_vec(), rng).unwrap(),
        (Flavour::Bitstring, false) => WithRate::new(rate).mutate(Bitstring { bits: g.to_vec() }, rng).unwrap().bits,
        (Flavour::VecBool, true) => match WithOneOverLength.mutate(g.to_vec(), rng) { Ok(v) => v, Err(_) => panic!("C11 1/length mutation failed") },
        (Flavour::Bitstring, true) => match WithOneOverLength.mutate(Bitstring { bits: g.to_vec() }, rng) { Ok(v) => v.bits, Err(_) => panic!("C11 1/length mutation failed") },
    };
    assert!(out.len() == L, "C11 bit-flip mutation changed the genome length");
    let mut o = [false; L];
    let mut i = 0;
    while i < L {
        o[i] = out[i];
        i += 1;
    }
    std::mem::forget(out);
    o
}

/// C11 structure: same length, every gene unchanged or negated (trivially true for bools once the
/// length is right), rate 0 identity, rate >= 1 everything flipped, one draw per gene
pub fn c11_bitflip<const L: usize>(g: [bool; L], rate: f32, fl: Flavour, rng: &mut SymRng) {
    let o = run_with_rate::<L>(g, rate, fl, false, rng);
    assert!(rng.draws() == L, "C11 bit-flip mutation: one draw per gene");
    let mut i = 0;
    while i < L {
        if rate == 0.0 {
            assert!(o[i] == g[i], "C11 rate 0 must be the identity");
        }
        if rate >= 1.0 {
            assert!(o[i] != g[i], "C11 rate >= 1 must flip every gene");
        }
        i += 1;
    }
}

/// C12 rate law for WithRate / WithOneOverLength: gene i flips iff (w_i >> 8) < ceil(rate * 2^24)
pub fn c12_bitflip<const L: usize>(g: [bool; L], rate: f32, fl: Flavour, one_over_len: bool, rng: &mut SymRng) {
    let o = run_with_rate::<L>(g, rate, fl, one_over_len, rng);
    let eff = if one_over_len { 1.0_f32 / (L as f32) } else { rate };
    assert!(rng.draws32 == L && rng.draws64 == 0, "C12 bit-flip: exactly one 32-bit word per gene");
    let mut i = 0;
    while i < L {
        assert!((o[i] != g[i]) == flips(rng.log[i], eff), "C12 bit-flip: gene i flips iff its own word is below the configured rate (independently, probability = rate up to 2^-24)");
        i += 1;
    }
    if one_over_len && L > 0 {
        // one expected flip: L * threshold = 2^24 up to rounding
        let t = f32_threshold(eff) as u64 * L as u64;
        assert!(t >= (1 << 24) - L as u64 && t <= (1 << 24) + L as u64, "C12 1/length: expected number of flips is not 1");
    }
}

// ---------------------------------------------------------------------------------------------
// UMAD
// ---------------------------------------------------------------------------------------------
/// gene generator probe: new genes are 100, 101, ... in generation order; draws one word each
pub struct TagGen<'a> {
    pub next: &'a Cell<u8>,
}
impl<'a> Distribution<u8> for TagGen<'a> {
    fn sample<R: Rng + ?Sized>(&self, rng: &mut R) -> u8 {
        let _ = rng.next_u64();
        let t = self.next.get();
        self.next.set(t + 1);
        t
    }
}

/// reference UMAD over the logged stream: per parent gene: add coin, delete coin, (if add) delete-new
/// coin, (if add and not delete-new) one generator call; output = [old?, new?] per parent position
pub fn umad_reference<const L: usize>(add: f64, del: f64, empty_rate: Option<f64>, log: &[u64; 8]) -> ([u8; 8], usize, usize) {
    let mut out = [0u8; 8];
    let mut n = 0;
    let mut cur = 0;
    let mut tag = 100u8;
    if L == 0 {
        if let Some(r) = empty_rate {
            if coin(log, &mut cur, r) {
                cur += 1; // generator draw
                out[n] = tag;
                n += 1;
            }
            return (out, n, cur);
        }
    }
    let mut i = 0;
    while i < L {
        let a = coin(log, &mut cur, add);
        let d = coin(log, &mut cur, del);
        let dn = a && coin(log, &mut cur, del);
        if !d {
            out[n] = i as u8; // parent gene, tagged by its position
            n += 1;
        }
        if a && !dn {
            cur += 1; // generator draw
            out[n] = tag;
            tag += 1;
            n += 1;
        }
        i += 1;
    }
    (out, n, cur)
}

pub fn run_umad<const L: usize>(add: f64, del: f64, empty: u8, rng: &mut SymRng) -> ([u8; 8], usize) {
    let next = Cell::new(100u8);
    let parent: Vector<u8> = (0..L as u8).collect();
    let gen = TagGen { next: &next };
    let m = match empty {
        0 => Umad::new(add, del, gen),
        1 => Umad::new_without_empty(add, del, gen),
        _ => Umad::new_with_empty_rate(add, 1.0, del, gen),
    };
    let child: Vector<u8> = m.mutate(parent, rng).unwrap();
    let mut out = [0u8; 8];
    let n = child.genes.len();
    assert!(n <= 2 * L + 1, "C11 UMAD child longer than parent genes + one insertion per position");
    let mut i = 0;
    while i < n && i < 8 {
        out[i] = child.genes[i];
        i += 1;
    }
    std::mem::forget(child);
    (out, n)
}

/// C11 structure of the child, C12 = equality with the reference (rates are the rates applied)
pub fn check_umad<const L: usize>(add: f64, del: f64, empty: u8, measure: bool, rng: &mut SymRng) {
    let (out, n) = run_umad::<L>(add, del, empty, rng);
    if measure {
        let empty_rate = match empty { 0 => Some(add), 1 => None, _ => Some(1.0) };
        let (want, wn, draws) = umad_reference::<L>(add, del, empty_rate, &rng.log);
        assert!(n == wn, "C12 UMAD: child size differs from 'insert after / delete each gene with the configured rates, new genes subject to deletion too'");
        let mut i = 0;
        while i < n {
            assert!(out[i] == want[i], "C12 UMAD: child differs from the reference built from the same random words");
            i += 1;
        }
        assert!(rng.draws() == draws, "C12 UMAD: draws (add, delete, delete-new only after an addition, generator only for surviving additions)");
        return;
    }
    // surviving parent genes in their original order, at most one new gene after each parent position,
    // new genes are generator outputs in generation order
    let mut last_parent: i32 = -1; // last parent position seen
    let mut new_since_parent = 0; // new genes since the last parent gene seen
    let mut next_tag = 100u8;
    let mut slots_used: i32 = -1; // index of the parent position the last new gene was attached to
    let mut i = 0;
    while i < n {
        let g = out[i];
        if g < 100 {
            assert!((g as i32) > last_parent && (g as usize) < L, "C11 UMAD: parent genes out of order / not parent genes");
            last_parent = g as i32;
            new_since_parent = 0;
        } else {
            assert!(g == next_tag, "C11 UMAD: new genes must be the generator's outputs in generation order");
            next_tag += 1;
            new_since_parent += 1;
        }
        i += 1;
    }
    let new_total = (next_tag - 100) as usize;
    if L == 0 {
        assert!(n <= 1, "C11 UMAD: an empty parent yields at most one new gene");
        if empty == 1 {
            assert!(n == 0, "C11 UMAD: empty-genome addition disabled but a gene was added");
        }
    } else {
        assert!(new_total <= L, "C11 UMAD: more insertions than parent positions");
    }
    if add == 0.0 && del == 0.0 && L > 0 {
        assert!(n == L && new_total == 0, "C11 UMAD: rates 0 must be the identity");
    }
    if del == 1.0 && L > 0 {
        assert!(n == 0, "C11 UMAD: deletion rate 1 must give an empty child");
    }
    if add == 1.0 && del == 0.0 && L > 0 {
        assert!(n == 2 * L, "C11 UMAD: addition 1 / deletion 0 must follow every parent gene by exactly one new gene");
        let mut k = 0;
        while k < L {
            assert!(out[2 * k] == k as u8 && out[2 * k + 1] == 100 + k as u8, "C11 UMAD: addition 1 / deletion 0 interleaving");
            k += 1;
        }
    }
    let _ = (slots_used, new_since_parent);
}

// ---------------------------------------------------------------------------------------------
// random bitstrings and Plushy genes (C12)
// ---------------------------------------------------------------------------------------------
pub fn c12_bitstring_random<const L: usize>(rng: &mut SymRng) {
    let b = Bitstring::random(L, rng);
    assert!(b.bits.len() == L && rng.draws32 == L && rng.draws64 == 0, "C12 Bitstring::random: one word per bit");
    let mut i = 0;
    while i < L {
        assert!(b.bits[i] == ((rng.log[i] >> 31) & 1 == 1), "C12 Bitstring::random: bit i is the top bit of word i (probability 1/2)");
        i += 1;
    }
    std::mem::forget(b);
}
pub fn c12_bitstring_with_probability<const L: usize>(p: f64, rng: &mut SymRng) {
    let b = Bitstring::random_with_probability(L, p, rng);
    assert!(b.bits.len() == L, "C12 random_with_probability: size");
    let mut cur = 0;
    let mut i = 0;
    while i < L {
        let want = coin(&rng.log, &mut cur, p);
        assert!(b.bits[i] == want, "C12 random_with_probability: bit i is set iff its word is below p * 2^64");
        i += 1;
    }
    assert!(rng.draws() == cur, "C12 random_with_probability: draws");
    let g = BoolGenerator::new(p);
    let before = rng.draws();
    let v: bool = g.sample(rng);
    let mut c2 = before;
    assert!(v == coin(&rng.log, &mut c2, p), "C12 BoolGenerator: true iff the word is below p * 2^64");
    std::mem::forget(b);
}

/// instruction distribution probe reporting `n` choices; draws one word per instruction
pub struct InstrGen {
    pub n: NonZeroUsize,
}
impl Distribution<PushInstruction> for InstrGen {
    fn sample<R: Rng + ?Sized>(&self, rng: &mut R) -> PushInstruction {
        PushInstruction::IntInstruction(IntInstruction::push((rng.next_u64() >> 1) as i64))
    }
}
impl ChoicesDistribution for InstrGen {
    fn num_choices(&self) -> NonZeroUsize {
        self.n
    }
}
pub fn c12_plushy_gene(explicit: Option<f32>, n: usize, rng: &mut SymRng) {
    let dist = InstrGen { n: NonZeroUsize::new(n).unwrap() };
    let (gen, p): (GeneGenerator<InstrGen>, f32) = match explicit {
        Some(p) => (dist.into_gene_generator_with_close_probability(p), p),
        None => (dist.into_gene_generator(), 1.0_f32 / ((n + 1) as f32)),
    };
    let g: PushGene = gen.sample(rng);
    let close = flips(rng.log[0], p);
    match &g {
        PushGene::Close => {
            assert!(close, "C12 Plushy gene: close marker although the word is not below the close probability");
            assert!(rng.draws() == 1, "C12 Plushy gene: a close marker consumes one word");
        }
        PushGene::Instruction(PushInstruction::IntInstruction(IntInstruction::Push(pv))) => {
            assert!(!close, "C12 Plushy gene: instruction although the word is below the close probability");
            assert!(rng.draws() == 2 && pv.0 == (rng.log[1] >> 1) as i64, "C12 Plushy gene: otherwise exactly one sample of the supplied instruction distribution");
        }
        _ => panic!("C12 Plushy gene: not from the supplied distribution"),
    }
    std::mem::forget(g);
}

#[cfg(kani)]
mod proofs {
    use super::*;

    fn any_rate() -> f32 {
        let r: f32 = kani::any();
        kani::assume(r >= 0.0 && r <= 2.0);
        r
    }
    fn any_prob() -> f64 {
        let p: f64 = kani::any();
        kani::assume(p >= 0.0 && p <= 1.0);
        p
    }

    macro_rules! bitflip { ($($n11:ident / $n12:ident / $n12l:ident = <$l:literal>, $fl:expr;)*) => {$(
        #[kani::proof]
        #[kani::unwind(7)]
        fn $n11() {
            let mut rng = SymRng::new();
            let rate = any_rate();
            c11_bitflip::<$l>(kani::any(), rate, $fl, &mut rng);
            crate::witness!(rate == 0.0, "WITNESS rate 0");
            crate::witness!(rate >= 1.0, "WITNESS rate >= 1");
        }
        #[kani::proof]
        #[kani::unwind(7)]
        fn $n12() {
            let mut rng = SymRng::new();
            let rate = any_rate();
            c12_bitflip::<$l>(kani::any(), rate, $fl, false, &mut rng);
            crate::witness!(rate > 0.25 && rate < 0.75, "WITNESS interior rate");
        }
        #[kani::proof]
        #[kani::unwind(7)]
        fn $n12l() {
            let mut rng = SymRng::new();
            c12_bitflip::<$l>(kani::any(), 0.0, $fl, true, &mut rng);
            crate::witness!(true, "WITNESS reached");
        }
    )*}; }
    bitflip! {
        c11_bitflip_vec_l0 / c12_bitflip_vec_l0 / c12_one_over_len_vec_l0 = <0>, Flavour::VecBool;
        c11_bitflip_vec_l1 / c12_bitflip_vec_l1 / c12_one_over_len_vec_l1 = <1>, Flavour::VecBool;
        c11_bitflip_vec_l3 / c12_bitflip_vec_l3 / c12_one_over_len_vec_l3 = <3>, Flavour::VecBool;
        c11_bitflip_bits_l0 / c12_bitflip_bits_l0 / c12_one_over_len_bits_l0 = <0>, Flavour::Bitstring;
        c11_bitflip_bits_l2 / c12_bitflip_bits_l2 / c12_one_over_len_bits_l2 = <2>, Flavour::Bitstring;
        c11_bitflip_bits_l4 / c12_bitflip_bits_l4 / c12_one_over_len_bits_l4 = <4>, Flavour::Bitstring;
    }
    #[cfg(feature = "thorough")]
    bitflip! {
        c11_t_bitflip_vec_l2 / c12_t_bitflip_vec_l2 / c12_t_one_over_len_vec_l2 = <2>, Flavour::VecBool;
        c11_t_bitflip_vec_l4 / c12_t_bitflip_vec_l4 / c12_t_one_over_len_vec_l4 = <4>, Flavour::VecBool;
        c11_t_bitflip_bits_l1 / c12_t_bitflip_bits_l1 / c12_t_one_over_len_bits_l1 = <1>, Flavour::Bitstring;
        c11_t_bitflip_bits_l3 / c12_t_bitflip_bits_l3 / c12_t_one_over_len_bits_l3 = <3>, Flavour::Bitstring;
        c11_t_bitflip_bits_l6 / c12_t_bitflip_bits_l6 / c12_t_one_over_len_bits_l6 = <6>, Flavour::Bitstring;
    }

    // UMAD: concrete rates from {0, 1/2, 1}, every stream symbolic; one harness per (L, add, del, empty mode)
    macro_rules! umad { ($($n11:ident / $n12:ident = <$l:literal>, ($add:expr, $del:expr, $empty:literal);)*) => {$(
        #[kani::proof]
        #[kani::unwind(7)]
        fn $n11() {
            let mut rng = SymRng::new();
            check_umad::<$l>($add, $del, $empty, false, &mut rng);
            crate::witness!(true, "WITNESS reached");
        }
        #[kani::proof]
        #[kani::unwind(7)]
        fn $n12() {
            let mut rng = SymRng::new();
            check_umad::<$l>($add, $del, $empty, true, &mut rng);
            crate::witness!(true, "WITNESS reached");
        }
    )*}; }
    umad! {
        c11_umad_l0_half_half / c12_umad_l0_half_half = <0>, (0.5, 0.5, 0);
        c11_umad_l0_noempty / c12_umad_l0_noempty = <0>, (0.5, 0.5, 1);
        c11_umad_l0_emptyrate1 / c12_umad_l0_emptyrate1 = <0>, (0.0, 0.5, 2);
    }
    // parents of length >= 1: the nested flat_map / flatten / extend loops multiply (64 copies of the
    // mutation closure at unwind 4): thorough tier only, 25 min cap
    #[cfg(feature = "thorough")]
    umad! {
        c11_t_umad_l1_half_half / c12_t_umad_l1_half_half = <1>, (0.5, 0.5, 0);
        c11_t_umad_l1_0_0 / c12_t_umad_l1_0_0 = <1>, (0.0, 0.0, 0);
        c11_t_umad_l1_1_0 / c12_t_umad_l1_1_0 = <1>, (1.0, 0.0, 0);
        c11_t_umad_l1_half_1 / c12_t_umad_l1_half_1 = <1>, (0.5, 1.0, 0);
    }
    // (measured and dropped: L = 2 parents run out of 14 GB after 16 min; L = 1 with one symbolic rate
    // runs out of memory as well -- both are outside the claim)

    macro_rules! rand_bits { ($($na:ident / $nb:ident = <$l:literal>;)*) => {$(
        #[kani::proof]
        #[kani::unwind(7)]
        fn $na() {
            let mut rng = SymRng::new();
            c12_bitstring_random::<$l>(&mut rng);
            crate::witness!(true, "WITNESS reached");
        }
        #[kani::proof]
        #[kani::unwind(7)]
        fn $nb() {
            let mut rng = SymRng::new();
            let p = any_prob();
            c12_bitstring_with_probability::<$l>(p, &mut rng);
            crate::witness!(p == 1.0, "WITNESS probability 1");
            crate::witness!(p > 0.0 && p < 1.0, "WITNESS interior probability");
        }
    )*}; }
    rand_bits! { c12_bitstring_random_l0 / c12_bitstring_prob_l0 = <0>; c12_bitstring_random_l3 / c12_bitstring_prob_l3 = <3>; }

    #[kani::proof]
    #[kani::unwind(7)]
    fn c12_plushy_gene_explicit() {
        let mut rng = SymRng::new();
        let p = any_rate();
        let n: usize = kani::any();
        kani::assume(n >= 1 && n <= 1000);
        c12_plushy_gene(Some(p), n, &mut rng);
        crate::witness!(p > 0.1 && p < 0.9, "WITNESS interior close probability");
    }
    #[kani::proof]
    #[kani::unwind(7)]
    fn c12_plushy_gene_default() {
        let mut rng = SymRng::new();
        let n: usize = kani::any();
        kani::assume(n >= 1 && n < (1 << 24));
        c12_plushy_gene(None, n, &mut rng);
        crate::witness!(n == 1, "WITNESS one instruction: close probability 1/2");
        crate::witness!(n == 99, "WITNESS 99 instructions");
    }
    /// instruction sets of 2^24 and more entries (n + 1 no longer exactly representable in f32)
    #[kani::proof]
    #[kani::unwind(7)]
    fn c12_plushy_gene_default_huge() {
        let mut rng = SymRng::new();
        let n: usize = kani::any();
        kani::assume(n >= (1 << 24) && n <= (1 << 24) + 4);
        c12_plushy_gene(None, n, &mut rng);
        crate::witness!(true, "WITNESS reached");
    }
}
