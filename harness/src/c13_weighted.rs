//! C13 — weighted selector combinations choose members in proportion to their weights.
use std::sync::atomic::{AtomicUsize, Ordering};

use ec_core::operator::selector::dyn_weighted::{DynWeighted, DynWeightedError};
use ec_core::operator::selector::Selector;
use ec_core::weighted::error::{SelectionError, WeightSumOverflow, WeightedPairError, ZeroWeight};
use ec_core::weighted::weighted_pair::WeightedPair;
use ec_core::weighted::with_weight::WithWeight;
use ec_core::weighted::with_weighted_item::WithWeightedItem;
use ec_core::weighted::Weighted;
use rand::Rng;

use crate::probes::{Log, Marker, PErr};
use crate::symrng::{SymRng, TapeRng};

pub const TOL: u128 = 1 << 12;

/// The threshold rand's Bernoulli uses for probability num/den (den > num): a uniform 64-bit word w
/// decides "first" iff w < floor(fl(num/den) * 2^64).  Same IEEE-754 operations as the library (so the
/// solver compares structure, not two dividers); that fl(num/den) is within 2^-53 of num/den is
/// IEEE-754's contract.  The division-free `forced_first` below is the independent check used for
/// small weights.
pub fn bernoulli_threshold(num: u32, den: u32) -> u64 {
    ((num as f64 / den as f64) * 18446744073709551616.0_f64) as u64
}

/// Is `w` (a uniform 64-bit word) on the "first member" side of a Bernoulli(num/den) decision?
/// Returns Some(true)/Some(false) when the answer is forced beyond the f64 rounding tolerance
/// (|threshold error| <= 2^12 of 2^64, i.e. probability error <= 2^-52), None inside the band.
/// Division-free: w < num*2^64/den  <=>  w*den < num*2^64.
pub fn forced_first(w: u64, num: u32, den: u64) -> Option<bool> {
    let lhs_lo = (w as u128 + TOL) * den as u128; // (w + tol) * den
    let rhs = (num as u128) << 64;
    if lhs_lo < rhs {
        return Some(true);
    }
    let lhs_hi = w as u128 * den as u128;
    if lhs_hi > rhs + TOL * den as u128 {
        return Some(false);
    }
    None
}

pub fn check_pair_new(a: u32, b: u32) {
    let log = Log::new(usize::MAX);
    let r = Weighted::new(Marker { id: 0, idx: 0, log: &log }, a).with_item_and_weight(Marker { id: 1, idx: 1, log: &log }, b);
    let overflow = (a as u64 + b as u64) > u32::MAX as u64;
    match r {
        Ok(p) => {
            assert!(!overflow, "C13 pair built although the weight total does not fit in 32 bits");
            assert!(p.weight() == a + b, "C13 pair weight is not the sum");
        }
        Err(WeightSumOverflow(x, y)) => {
            assert!(overflow, "C13 pair rejected although the total fits");
            assert!(x == a && y == b, "C13 WeightSumOverflow payload");
        }
    }
}

/// chain of four members; overflow anywhere (also early) must surface as the chain's result
pub fn check_chain_overflow(w: [u32; 4]) {
    let log = Log::new(usize::MAX);
    let r = Weighted::new(Marker { id: 0, idx: 0, log: &log }, w[0])
        .with_item_and_weight(Marker { id: 1, idx: 1, log: &log }, w[1])
        .with_item_and_weight(Marker { id: 2, idx: 2, log: &log }, w[2])
        .with_item_and_weight(Marker { id: 3, idx: 3, log: &log }, w[3]);
    // reference: first prefix whose sum overflows
    let mut acc: u64 = w[0] as u64;
    let mut first_bad: Option<(u32, u32)> = None;
    let mut k = 1;
    while k < 4 {
        if first_bad.is_none() {
            if acc + w[k] as u64 > u32::MAX as u64 {
                first_bad = Some((acc as u32, w[k]));
            } else {
                acc += w[k] as u64;
            }
        }
        k += 1;
    }
    match r {
        Ok(p) => {
            assert!(first_bad.is_none(), "C13 chain built although a prefix total overflowed");
            assert!(p.weight() as u64 == acc, "C13 chain weight is not the total");
        }
        Err(WeightSumOverflow(x, y)) => {
            assert!(first_bad == Some((x, y)), "C13 chain: overflow error is not the first overflowing step");
        }
    }
}

fn which<'a>(pop: &'a [u8; 4], r: &'a u8) -> usize {
    let mut i = 0;
    while i < 4 {
        if std::ptr::eq(r, &pop[i]) {
            return i;
        }
        i += 1;
    }
    usize::MAX
}

pub fn check_pair_select(a: u32, b: u32, small: bool, rng: &mut SymRng) {
    let log = Log::new(usize::MAX);
    let pop = [10u8, 11, 12, 13];
    let overflow = (a as u64 + b as u64) > u32::MAX as u64;
    if overflow {
        return;
    }
    let pair = WeightedPair::new(Weighted::new(Marker { id: 0, idx: 0, log: &log }, a), Weighted::new(Marker { id: 1, idx: 1, log: &log }, b));
    let pair = match pair { Ok(p) => p, Err(_) => panic!("C13 pair rejected although the total fits") };
    let r = pair.select(&pop, rng);
    let total = a as u64 + b as u64;
    match r {
        Err(SelectionError::ZeroWeight(ZeroWeight)) => {
            assert!(total == 0, "C13 ZeroWeight although some weight is positive");
            assert!(log.borrow().n == 0, "C13 a member ran although the total weight is zero");
            assert!(rng.draws() == 0, "C13 zero-weight pair consumed randomness");
        }
        Err(_) => panic!("C13 unexpected selection error"),
        Ok(ind) => {
            assert!(total > 0, "C13 selection succeeded with zero total weight");
            assert!(log.borrow().n == 1, "C13 not exactly one member was delegated to");
            let chosen = log.borrow().e[0].id as usize;
            assert!(which(&pop, ind) == chosen, "C13 result is not the chosen member's pick");
            // zero-weight members are never used
            assert!(!(chosen == 0 && a == 0) && !(chosen == 1 && b == 0), "C13 member of weight zero was used");
            // proportionality (measure characterisation): A iff word < a*2^64/(a+b) up to f64 rounding
            if a as u64 == total {
                assert!(chosen == 0, "C13 only A has weight");
            } else {
                assert!(rng.draws64 == 1 && rng.draws32 == 0, "C13 exactly one 64-bit word decides the pair");
                if small {
                    match forced_first(rng.log[0], a, total) {
                        Some(true) => assert!(chosen == 0, "C13 proportionality: word below a*2^64/(a+b) must pick A"),
                        Some(false) => assert!(chosen == 1, "C13 proportionality: word above a*2^64/(a+b) must pick B"),
                        None => {}
                    }
                } else {
                    let t = bernoulli_threshold(a, total as u32);
                    assert!((chosen == 0) == (rng.log[0] < t), "C13 proportionality: A iff word < fl(a/(a+b))*2^64");
                }
            }
        }
    }
}

/// left-nested ((m0:a, m1:b), m2:c) and right-nested (m0:a, (m1:b, m2:c)): the outer decision
/// uses the inner pair's weight SUM; then the inner decision uses a : b (resp. b : c).
pub fn check_nested(a: u32, b: u32, c: u32, left: bool, small: bool, rng: &mut SymRng) {
    let total = a as u64 + b as u64 + c as u64;
    if total > u32::MAX as u64 {
        return;
    }
    let log = Log::new(usize::MAX);
    let pop = [10u8, 11, 12, 13];
    let m = |id: u8| Marker { id, idx: id as usize, log: &log };
    let chosen: Option<usize>;
    let zero_err: bool;
    if left {
        let t = match Weighted::new(m(0), a).with_item_and_weight(m(1), b).with_item_and_weight(m(2), c) { Ok(t) => t, Err(_) => panic!("C13 nested chain rejected") };
        assert!(t.weight() as u64 == total, "C13 nested weight");
        match t.select(&pop, rng) {
            Ok(ind) => { chosen = Some(which(&pop, ind)); zero_err = false; }
            Err(SelectionError::ZeroWeight(_)) => { chosen = None; zero_err = true; }
            Err(SelectionError::Selector(WeightedPairError::A(SelectionError::ZeroWeight(_)))) => { chosen = None; zero_err = true; }
            Err(_) => panic!("C13 nested: unexpected error"),
        }
    } else {
        let inner = match WeightedPair::new(Weighted::new(m(1), b), Weighted::new(m(2), c)) { Ok(t) => t, Err(_) => panic!("C13 inner rejected") };
        let t = match Weighted::new(m(0), a).with_weighted_item(inner) { Ok(t) => t, Err(_) => panic!("C13 nested chain rejected") };
        assert!(t.weight() as u64 == total, "C13 nested weight");
        match t.select(&pop, rng) {
            Ok(ind) => { chosen = Some(which(&pop, ind)); zero_err = false; }
            Err(SelectionError::ZeroWeight(_)) => { chosen = None; zero_err = true; }
            Err(SelectionError::Selector(WeightedPairError::B(SelectionError::ZeroWeight(_)))) => { chosen = None; zero_err = true; }
            Err(_) => panic!("C13 nested: unexpected error"),
        }
    }
    if total == 0 {
        assert!(zero_err && log.borrow().n == 0, "C13 nested: all-zero weights must give the zero-weight error and run nobody");
        return;
    }
    assert!(!zero_err, "C13 nested: zero-weight error although some weight is positive");
    let ch = chosen.unwrap();
    assert!(log.borrow().n == 1 && log.borrow().e[0].id as usize == ch, "C13 nested: exactly one member runs and its pick is returned");
    let wts = [a, b, c];
    assert!(wts[ch] != 0, "C13 nested: member of weight zero was used");
    // outer decision: word 0 against (weight of first component) : total
    let (first_w, inner_first, inner_total): (u64, u32, u64) = if left { (a as u64 + b as u64, a, a as u64 + b as u64) } else { (a as u64, b, b as u64 + c as u64) };
    let in_first = if left { ch <= 1 } else { ch == 0 };
    let mut next = 0usize;
    if first_w == total {
        assert!(in_first, "C13 nested: only the first component has weight");
    } else {
        if small {
            match forced_first(rng.log[0], first_w as u32, total) {
                Some(true) => assert!(in_first, "C13 nested proportionality: outer decision must use the inner pair's weight sum"),
                Some(false) => assert!(!in_first, "C13 nested proportionality: outer decision must use the inner pair's weight sum"),
                None => {}
            }
        } else {
            let t = bernoulli_threshold(first_w as u32, total as u32);
            assert!(in_first == (rng.log[0] < t), "C13 nested proportionality: outer decision must use the inner pair's weight sum");
        }
        next = 1;
    }
    // inner decision (only when the pair component was entered)
    let in_pair = if left { in_first } else { !in_first };
    if in_pair && inner_first as u64 != inner_total {
        let first_of_pair = if left { ch == 0 } else { ch == 1 };
        if small {
            match forced_first(rng.log[next], inner_first, inner_total) {
                Some(true) => assert!(first_of_pair, "C13 nested proportionality: inner decision"),
                Some(false) => assert!(!first_of_pair, "C13 nested proportionality: inner decision"),
                None => {}
            }
        } else {
            let t = bernoulli_threshold(inner_first, inner_total as u32);
            assert!(first_of_pair == (rng.log[next] < t), "C13 nested proportionality: inner decision");
        }
    }
}

pub fn check_weighted_alone(w: u32, rng: &mut SymRng) {
    let log = Log::new(usize::MAX);
    let pop = [10u8, 11, 12, 13];
    let s = Weighted::new(Marker { id: 2, idx: 2, log: &log }, w);
    assert!(s.weight() == w, "C13 Weighted::weight");
    match s.select(&pop, rng) {
        Ok(ind) => assert!(w != 0 && std::ptr::eq(ind, &pop[2]) && log.borrow().n == 1, "C13 Weighted delegates"),
        Err(SelectionError::ZeroWeight(_)) => assert!(w == 0 && log.borrow().n == 0, "C13 Weighted zero weight"),
        Err(_) => panic!("C13 Weighted: unexpected error"),
    }
    assert!(rng.draws() == 0, "C13 Weighted draws nothing itself");
}

// ---- DynWeighted: members must be 'static + Send + Sync, so calls are counted in statics ----
pub static CALLS: [AtomicUsize; 3] = [AtomicUsize::new(0), AtomicUsize::new(0), AtomicUsize::new(0)];
pub struct SMarker(pub usize);
impl Selector<[u8; 4]> for SMarker {
    type Error = PErr;
    fn select<'pop, R: Rng + ?Sized>(&self, pop: &'pop [u8; 4], _rng: &mut R) -> Result<&'pop u8, PErr> {
        CALLS[self.0].fetch_add(1, Ordering::Relaxed);
        Ok(&pop[self.0])
    }
}

pub fn check_dyn_weighted<const T: usize>(w: [usize; 3], rng: &mut TapeRng<T>) {
    let pop = [10u8, 11, 12, 13];
    let s: DynWeighted<[u8; 4]> = DynWeighted::new(SMarker(0), w[0]).with_selector(SMarker(1), w[1]).with_selector(SMarker(2), w[2]);
    let r = s.select(&pop, rng);
    let total = w[0] + w[1] + w[2];
    let calls = [CALLS[0].load(Ordering::Relaxed), CALLS[1].load(Ordering::Relaxed), CALLS[2].load(Ordering::Relaxed)];
    match r {
        Ok(ind) => {
            assert!(total > 0, "C13 DynWeighted selected although all weights are zero");
            let ch = which(&pop, ind);
            assert!(ch < 3 && w[ch] != 0, "C13 DynWeighted used a member of weight zero");
            assert!(calls[0] + calls[1] + calls[2] == 1 && calls[ch] == 1, "C13 DynWeighted: exactly one member runs");
        }
        Err(DynWeightedError::ZeroWeightSum(_)) => {
            assert!(total == 0, "C13 DynWeighted: zero-weight error although some weight is positive");
            assert!(calls[0] + calls[1] + calls[2] == 0, "C13 DynWeighted: a member ran although all weights are zero");
        }
        Err(_) => panic!("C13 DynWeighted: unexpected error"),
    }
    std::mem::forget(s);
}

/// A combination that was already USED and is then extended must behave like the same combination built in one go
/// ("no matter ... in which order it was built"): select once, add a member, then compare with a fresh twin on equal tapes.
pub fn check_dyn_extended_after_use<const T: usize>(w: [usize; 2], first: &mut TapeRng<T>, rng: &TapeRng<T>) {
    let pop = [10u8, 11, 12, 13];
    let used: DynWeighted<[u8; 4]> = DynWeighted::new(SMarker(0), w[0]);
    let r0 = used.select(&pop, first).is_ok();
    assert!(r0 == (w[0] != 0), "C13 DynWeighted with one member: Ok iff its weight is positive");
    let used = used.with_selector(SMarker(1), w[1]);
    let fresh: DynWeighted<[u8; 4]> = DynWeighted::new(SMarker(0), w[0]).with_selector(SMarker(1), w[1]);
    let (mut t1, mut t2) = (rng.clone(), rng.clone());
    let a = used.select(&pop, &mut t1);
    let b = fresh.select(&pop, &mut t2);
    match (&a, &b) {
        (Ok(x), Ok(y)) => {
            assert!(which(&pop, x) == which(&pop, y), "C13 DynWeighted extended after its first use delegates to another member than the same combination built in one go");
            assert!(w[which(&pop, x)] != 0, "C13 DynWeighted used a member of weight zero");
        }
        (Err(DynWeightedError::ZeroWeightSum(_)), Err(DynWeightedError::ZeroWeightSum(_))) => {
            assert!(w[0] + w[1] == 0, "C13 DynWeighted: zero-weight error although some weight is positive");
        }
        _ => panic!("C13 DynWeighted extended after its first use: outcome differs from the same combination built in one go"),
    }
    assert!(t1.same_state(&t2), "C13 DynWeighted extended after its first use consumes the random stream differently");
    crate::witness!(matches!(&a, Ok(x) if which(&pop, x) == 1), "WITNESS the member added after the first use is chosen");
    std::mem::forget(used);
    std::mem::forget(fresh);
}

#[cfg(kani)]
mod proofs {
    use super::*;

    #[kani::proof]
    #[kani::unwind(8)]
    fn c13_dyn_extended_after_use() {
        let w: [usize; 2] = kani::any();
        kani::assume(w[0] <= 3 && w[1] <= 3);
        let mut first = TapeRng::<3>::any();
        let rng = TapeRng::<3>::any();
        check_dyn_extended_after_use(w, &mut first, &rng);
    }

    #[kani::proof]
    fn c13_pair_new() {
        let (a, b): (u32, u32) = (kani::any(), kani::any());
        check_pair_new(a, b);
        crate::witness!(a as u64 + b as u64 == u32::MAX as u64 + 1, "WITNESS smallest overflow");
        crate::witness!(a as u64 + b as u64 == u32::MAX as u64, "WITNESS largest fitting total");
    }
    #[kani::proof]
    #[kani::unwind(6)]
    fn c13_chain_overflow() {
        let w: [u32; 4] = kani::any();
        check_chain_overflow(w);
        crate::witness!(w[0] as u64 + w[1] as u64 > u32::MAX as u64, "WITNESS overflow early in the chain");
        crate::witness!(w[0] as u64 + w[1] as u64 + w[2] as u64 <= u32::MAX as u64 && w[0] as u64 + w[1] as u64 + w[2] as u64 + w[3] as u64 > u32::MAX as u64, "WITNESS overflow at the last step");
    }
    // full-width weights: one harness per concrete boundary pair (a symbolic pair makes CBMC prove
    // the f64 divider against a 128-bit multiplier: > 240 s); every random word stays symbolic.
    macro_rules! pair_tab { ($($name:ident = ($a:expr, $b:expr);)*) => {$(
        #[kani::proof]
        #[kani::unwind(6)]
        fn $name() {
            let mut rng = SymRng::new();
            check_pair_select($a, $b, true, &mut rng);
            crate::witness!(true, "WITNESS reached");
        }
    )*}; }
    pair_tab! {
        c13_pair_tab_1_max = (1, u32::MAX - 1);
        c13_pair_tab_max_1 = (u32::MAX - 1, 1);
        c13_pair_tab_max_0 = (u32::MAX, 0);
        c13_pair_tab_0_max = (0, u32::MAX);
        c13_pair_tab_half = (1 << 31, (1 << 31) - 1);
        c13_pair_tab_3_big = (3, 1 << 30);
        c13_pair_tab_odd = (12345, 67890);
        c13_pair_tab_1_2 = (1, 2);
    }
    macro_rules! nest_tab { ($($name:ident = ($a:expr, $b:expr, $c:expr, $left:expr);)*) => {$(
        #[kani::proof]
        #[kani::unwind(6)]
        fn $name() {
            let mut rng = SymRng::new();
            check_nested($a, $b, $c, $left, true, &mut rng);
            crate::witness!(true, "WITNESS reached");
        }
    )*}; }
    nest_tab! {
        c13_nest_tab_left_big = (1 << 30, 1 << 31, (1 << 30) - 1, true);
        c13_nest_tab_right_big = (1 << 30, 1 << 31, (1 << 30) - 1, false);
        c13_nest_tab_left_skew = (1, u32::MAX - 3, 2, true);
        c13_nest_tab_right_skew = (1, u32::MAX - 3, 2, false);
    }
    #[kani::proof]
    #[kani::unwind(6)]
    fn c13_pair_select_small() {
        let (a, b): (u32, u32) = (kani::any(), kani::any());
        kani::assume(a <= 15 && b <= 15);
        let mut rng = SymRng::new();
        check_pair_select(a, b, true, &mut rng);
        crate::witness!(a == 1 && b == 15, "WITNESS 1:15");
        crate::witness!(a == 7 && b == 0, "WITNESS 7:0");
    }
    #[kani::proof]
    #[kani::unwind(6)]
    fn c13_nested_left_small() {
        let (a, b, c): (u32, u32, u32) = (kani::any(), kani::any(), kani::any());
        kani::assume(a <= 7 && b <= 7 && c <= 7);
        let mut rng = SymRng::new();
        check_nested(a, b, c, true, true, &mut rng);
        crate::witness!(a == 1 && b == 2 && c == 3, "WITNESS 1:2:3");
    }
    #[kani::proof]
    #[kani::unwind(6)]
    fn c13_nested_right_small() {
        let (a, b, c): (u32, u32, u32) = (kani::any(), kani::any(), kani::any());
        kani::assume(a <= 7 && b <= 7 && c <= 7);
        let mut rng = SymRng::new();
        check_nested(a, b, c, false, true, &mut rng);
        crate::witness!(a == 1 && b == 2 && c == 3, "WITNESS 1:2:3");
    }
    #[kani::proof]
    #[kani::unwind(6)]
    fn c13_weighted_alone() {
        let w: u32 = kani::any();
        let mut rng = SymRng::new();
        check_weighted_alone(w, &mut rng);
        crate::witness!(w == 0, "WITNESS zero weight");
        crate::witness!(w == u32::MAX, "WITNESS max weight");
    }
    #[kani::proof]
    #[kani::unwind(8)]
    fn c13_dyn_weighted() {
        let w: [usize; 3] = kani::any();
        kani::assume(w[0] <= 7 && w[1] <= 7 && w[2] <= 7);
        let mut rng = TapeRng::<4>::any();
        check_dyn_weighted(w, &mut rng);
        crate::witness!(w[0] == 0 && w[1] == 0 && w[2] == 0, "WITNESS all-zero weights");
        crate::witness!(w[0] == 0 && w[1] > 0, "WITNESS zero-weight member");
    }
}
