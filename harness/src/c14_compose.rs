//! C14 — composed operators run their parts in order and stop at the first failure.
use std::cell::RefCell;
use std::fmt::Write;

use ec_core::individual::ec::EcIndividual;
use ec_core::operator::composable::Composable;
use ec_core::operator::constant::Constant;
use ec_core::operator::genome_extractor::GenomeExtractor;
use ec_core::operator::identity::Identity;
use ec_core::operator::mutator::Mutate;
use ec_core::operator::recombinator::Recombine;
use ec_core::operator::selector::Select;
use ec_core::operator::Operator;

use crate::probes::{mix, Log, PErr, PMut, PPair, PRec, PSel, P};
use crate::symrng::SymRng;

/// Loop-free `fmt::Write` sink: remembers, for the first 4 pieces written, their length and
/// first two bytes, plus the byte at absolute offset 25 of the whole output.  (Copying the text
/// byte by byte costs a 130-fold unwinding of every loop in the harness: 100 s vs 10 s.)
pub struct Sink {
    pub pieces: usize,
    pub len: [usize; 4],
    pub first: [[u8; 2]; 4],
    pub total: usize,
    pub at25: u8,
}
impl Sink {
    pub fn new() -> Self {
        Sink { pieces: 0, len: [0; 4], first: [[0; 2]; 4], total: 0, at25: 0 }
    }
}
impl Write for Sink {
    fn write_str(&mut self, s: &str) -> std::fmt::Result {
        let b = s.as_bytes();
        if self.pieces < 4 {
            self.len[self.pieces] = b.len();
            if b.len() > 0 {
                self.first[self.pieces][0] = b[0];
            }
            if b.len() > 1 {
                self.first[self.pieces][1] = b[1];
            }
        }
        if self.total <= 25 && 25 < self.total + b.len() {
            self.at25 = b[25 - self.total];
        }
        self.total += b.len();
        self.pieces += 1;
        Ok(())
    }
}
/// index reported by a MapError: "Error while applying passed operator on the {i}-th element ..."
/// (second piece written is the decimal index; indices < 100 are enough here)
pub fn map_err_index<E: std::fmt::Display + ?Sized>(e: &E) -> usize {
    let mut k = Sink::new();
    let _ = write!(k, "{}", e);
    if k.pieces < 2 || k.len[1] == 0 || k.len[1] > 2 {
        return usize::MAX;
    }
    let d0 = k.first[1][0];
    if !(d0 >= b'0' && d0 <= b'9') {
        return usize::MAX;
    }
    let mut v = (d0 - b'0') as usize;
    if k.len[1] == 2 {
        let d1 = k.first[1][1];
        if !(d1 >= b'0' && d1 <= b'9') {
            return usize::MAX;
        }
        v = v * 10 + (d1 - b'0') as usize;
    }
    v
}

/// Which part does a ThenError/AndError blame?  Their types live in private modules, so the public
/// observation is Display: "Error while applying the first passed operator ..." / "... the second
/// passed operator ..." -- byte 25 of the message is 'f' or 's'.
pub fn blamed_part<E: std::fmt::Display + ?Sized>(e: &E) -> u8 {
    let mut k = Sink::new();
    let _ = write!(k, "{}", e);
    if k.total < 40 {
        return 0;
    }
    match k.at25 {
        b'f' => 1,
        b's' => 2,
        _ => 0,
    }
}

/// common post-conditions: the log holds exactly `calls` entries with the given ids in order, the
/// k-th call drew the k-th word of the stream, and nothing else drew.
pub fn check_log(log: &RefCell<Log>, rng: &SymRng, ids: &[u8], calls: usize) {
    let l = log.borrow();
    assert!(l.n == calls, "C14 number of component calls");
    assert!(rng.draws() == calls, "C14 number of random draws (a later part consumed randomness, or a wrapper drew)");
    let mut k = 0;
    while k < calls {
        assert!(l.e[k].id == ids[k], "C14 call order");
        assert!(l.e[k].word == rng.log[k], "C14 draws strictly left to right");
        k += 1;
    }
}

/// expected number of calls when `total` calls would happen without failure
pub fn calls_until(fail_at: usize, total: usize) -> usize {
    if fail_at < total { fail_at + 1 } else { total }
}

/// the innermost probe error reachable through `Error::source()` chains (or the error itself)
pub fn root_probe(e: &(dyn std::error::Error + 'static)) -> Option<PErr> {
    let mut cur: &(dyn std::error::Error + 'static) = e;
    let mut depth = 0;
    while depth < 4 {
        if let Some(p) = cur.downcast_ref::<PErr>() {
            return Some(*p);
        }
        match cur.source() {
            Some(n) => cur = n,
            None => return None,
        }
        depth += 1;
    }
    None
}

pub fn check_then(x: u64, fail_at: usize, rng: &mut SymRng) {
    let log = Log::new(fail_at);
    let op = P { id: 1, log: &log }.then(P { id: 2, log: &log });
    let r = op.apply(x, rng);
    check_log(&log, rng, &[1, 2], calls_until(fail_at, 2));
    let l = log.borrow();
    assert!(l.e[0].input == x, "C14 then: first sees the input");
    match r {
        Ok(v) => {
            assert!(fail_at >= 2, "C14 then: Ok despite failure");
            let a = mix(1, x, rng.log[0]);
            assert!(l.e[1].input == a, "C14 then: second operator must see the first's result");
            assert!(v == mix(2, a, rng.log[1]), "C14 then: output");
        }
        Err(e) => {
            assert!(fail_at < 2, "C14 then: Err without failure");
            let part = (fail_at + 1) as u8;
            assert!(root_probe(&e) == Some(PErr(part)), "C14 then: wrapped error is the failing part's error");
            assert!(blamed_part(&e) == part, "C14 then: error identifies the failing part");
        }
    }
}


pub fn check_and(x: u64, fail_at: usize, rng: &mut SymRng) {
    let log = Log::new(fail_at);
    let op = P { id: 1, log: &log }.and(P { id: 2, log: &log });
    let r = op.apply(x, rng);
    check_log(&log, rng, &[1, 2], calls_until(fail_at, 2));
    let l = log.borrow();
    assert!(l.e[0].input == x, "C14 and: first sees the input");
    match r {
        Ok((a, b)) => {
            assert!(fail_at >= 2, "C14 and: Ok despite failure");
            assert!(l.e[1].input == x, "C14 and: second operator must see the same input");
            assert!(a == mix(1, x, rng.log[0]) && b == mix(2, x, rng.log[1]), "C14 and: outputs paired in order");
        }
        Err(e) => {
            assert!(fail_at < 2, "C14 and: Err without failure");
            let part = (fail_at + 1) as u8;
            assert!(root_probe(&e) == Some(PErr(part)), "C14 and: wrapped error is the failing part's error");
            assert!(blamed_part(&e) == part, "C14 and: error identifies the failing part");
        }
    }
}

fn check_map_common<E: std::error::Error + 'static>(
    log: &RefCell<Log>, rng: &SymRng, xs: &[u64], fail_at: usize, out: Result<&[u64], &E>,
) {
    let n = xs.len();
    let ids = [5u8; 8];
    check_log(log, rng, &ids, calls_until(fail_at, n));
    let l = log.borrow();
    let mut k = 0;
    while k < calls_until(fail_at, n) {
        assert!(l.e[k].input == xs[k], "C14 map: element order");
        k += 1;
    }
    match out {
        Ok(v) => {
            assert!(fail_at >= n, "C14 map: Ok despite failure");
            assert!(v.len() == n, "C14 map: output length");
            let mut k = 0;
            while k < n {
                assert!(v[k] == mix(5, xs[k], rng.log[k]), "C14 map: output element");
                k += 1;
            }
        }
        Err(e) => {
            assert!(fail_at < n, "C14 map: Err without failure");
            assert!(root_probe(e) == Some(PErr(5)), "C14 map: wrapped error");
            assert!(map_err_index(e) == fail_at, "C14 map: error identifies the failing element");
        }
    }
}

pub fn check_map_arr2(xs: [u64; 2], fail_at: usize, rng: &mut SymRng) {
    let log = Log::new(fail_at);
    let op = Identity.map(P { id: 5, log: &log });
    let r = op.apply(xs, rng);
    match &r {
        Ok(v) => check_map_common::<PErr>(&log, rng, &xs, fail_at, Ok(&v[..])),
        Err(e) => check_map_common(&log, rng, &xs, fail_at, Err(e)),
    }
}
pub fn check_map_tuple(xs: (u64, u64), fail_at: usize, rng: &mut SymRng) {
    let log = Log::new(fail_at);
    let op = Identity.map(P { id: 5, log: &log });
    let r = op.apply(xs, rng);
    let arr = [xs.0, xs.1];
    match &r {
        Ok(v) => check_map_common::<PErr>(&log, rng, &arr, fail_at, Ok(&[v.0, v.1][..])),
        Err(e) => check_map_common(&log, rng, &arr, fail_at, Err(e)),
    }
}
pub fn check_map_vec<const L: usize>(xs: [u64; L], fail_at: usize, rng: &mut SymRng) {
    let log = Log::new(fail_at);
    let op = Identity.map(P { id: 5, log: &log });
    let r = op.apply(xs.to_vec(), rng);
    match &r {
        Ok(v) => check_map_common::<PErr>(&log, rng, &xs, fail_at, Ok(&v[..])),
        Err(e) => check_map_common(&log, rng, &xs, fail_at, Err(e)),
    }
    std::mem::forget(r);
}

pub fn check_repeat<const N: usize>(x: u64, fail_at: usize, rng: &mut SymRng) {
    let log = Log::new(fail_at);
    let op = P { id: 7, log: &log }.apply_n_times::<N>();
    let r = op.apply(x, rng);
    let ids = [7u8; 8];
    check_log(&log, rng, &ids, calls_until(fail_at, N));
    let l = log.borrow();
    let mut k = 0;
    while k < calls_until(fail_at, N) {
        assert!(l.e[k].input == x, "C14 repeat: every application sees a copy of the input");
        k += 1;
    }
    match r {
        Ok(v) => {
            assert!(fail_at >= N, "C14 repeat: Ok despite failure");
            let mut k = 0;
            while k < N {
                assert!(v[k] == mix(7, x, rng.log[k]), "C14 repeat: k-th output from k-th draw");
                k += 1;
            }
        }
        Err(e) => {
            assert!(fail_at < N && e == PErr(7), "C14 repeat: error");
        }
    }
}

pub fn check_twice(x: u64, fail_at: usize, rng: &mut SymRng) {
    let log = Log::new(fail_at);
    let op = P { id: 7, log: &log }.apply_twice();
    let r = op.apply(x, rng);
    check_log(&log, rng, &[7, 7], calls_until(fail_at, 2));
    if let Ok(v) = r {
        assert!(fail_at >= 2 && v[0] == mix(7, x, rng.log[0]) && v[1] == mix(7, x, rng.log[1]), "C14 apply_twice");
    } else {
        assert!(fail_at < 2, "C14 apply_twice: Err without failure");
    }
}

/// nesting A: (P1 and P2) then_map P3   -- 4 component calls: 1,2,3,3
pub fn check_nest_a(x: u64, fail_at: usize, rng: &mut SymRng) {
    let log = Log::new(fail_at);
    let op = P { id: 1, log: &log }.and(P { id: 2, log: &log }).then_map(P { id: 3, log: &log });
    let r = op.apply(x, rng);
    check_log(&log, rng, &[1, 2, 3, 3], calls_until(fail_at, 4));
    let a = mix(1, x, rng.log[0]);
    let b = mix(2, x, rng.log[1]);
    let l = log.borrow();
    match r {
        Ok((u, v)) => {
            assert!(fail_at >= 4, "C14 nest A: Ok despite failure");
            assert!(l.e[2].input == a && l.e[3].input == b, "C14 nest A: map sees the pair in order");
            assert!(u == mix(3, a, rng.log[2]) && v == mix(3, b, rng.log[3]), "C14 nest A: output");
        }
        Err(e) => {
            assert!(fail_at < 4, "C14 nest A: Err without failure");
            use std::error::Error;
            let inner = e.source().unwrap();
            if fail_at < 2 {
                assert!(blamed_part(&e) == 1, "C14 nest A: outer blames first");
                assert!(blamed_part(inner) == (fail_at + 1) as u8, "C14 nest A: inner and-error blames the failing part");
                assert!(root_probe(&e) == Some(PErr((fail_at + 1) as u8)), "C14 nest A: root error");
            } else {
                assert!(blamed_part(&e) == 2, "C14 nest A: outer blames second");
                assert!(map_err_index(inner) == fail_at - 2, "C14 nest A: inner map-error index");
                assert!(root_probe(&e) == Some(PErr(3)), "C14 nest A: root error");
            }
        }
    }
}

/// nesting B: ((P1 then P2) twice) then_map P3 -- 6 component calls: 1,2,1,2,3,3
pub fn check_nest_b(x: u64, fail_at: usize, rng: &mut SymRng) {
    let log = Log::new(fail_at);
    let op = P { id: 1, log: &log }.then(P { id: 2, log: &log }).apply_twice().then_map(P { id: 3, log: &log });
    let r = op.apply(x, rng);
    check_log(&log, rng, &[1, 2, 1, 2, 3, 3], calls_until(fail_at, 6));
    let a0 = mix(2, mix(1, x, rng.log[0]), rng.log[1]);
    let a1 = mix(2, mix(1, x, rng.log[2]), rng.log[3]);
    match r {
        Ok(v) => {
            assert!(fail_at >= 6, "C14 nest B: Ok despite failure");
            assert!(v[0] == mix(3, a0, rng.log[4]) && v[1] == mix(3, a1, rng.log[5]), "C14 nest B: output");
        }
        Err(e) => {
            assert!(fail_at < 6, "C14 nest B: Err without failure");
            use std::error::Error;
            let inner = e.source().unwrap();
            if fail_at < 4 {
                assert!(blamed_part(&e) == 1, "C14 nest B: outer blames first");
                assert!(blamed_part(inner) == (fail_at % 2 + 1) as u8, "C14 nest B: inner then-error blames the failing part");
                assert!(root_probe(&e) == Some(PErr((fail_at % 2 + 1) as u8)), "C14 nest B: root error");
            } else {
                assert!(blamed_part(&e) == 2, "C14 nest B: outer blames second");
                assert!(map_err_index(inner) == fail_at - 4, "C14 nest B: inner map-error index");
            }
        }
    }
}

/// nesting B4: (P1 then P2) twice -- 4 component calls: 1,2,1,2
pub fn check_nest_b4(x: u64, fail_at: usize, rng: &mut SymRng) {
    let log = Log::new(fail_at);
    let op = P { id: 1, log: &log }.then(P { id: 2, log: &log }).apply_twice();
    let r = op.apply(x, rng);
    check_log(&log, rng, &[1, 2, 1, 2], calls_until(fail_at, 4));
    let a0 = mix(2, mix(1, x, rng.log[0]), rng.log[1]);
    let a1 = mix(2, mix(1, x, rng.log[2]), rng.log[3]);
    match r {
        Ok(v) => {
            assert!(fail_at >= 4, "C14 nest B4: Ok despite failure");
            assert!(v[0] == a0 && v[1] == a1, "C14 nest B4: output");
        }
        Err(e) => {
            assert!(fail_at < 4, "C14 nest B4: Err without failure");
            assert!(blamed_part(&e) == (fail_at % 2 + 1) as u8, "C14 nest B4: then-error blames the failing part");
            assert!(root_probe(&e) == Some(PErr((fail_at % 2 + 1) as u8)), "C14 nest B4: root error");
        }
    }
}

/// nesting C: P1 then (P2 and (P3 then P4)) then PPair5 -- calls 1,2,3,4,5
pub fn check_nest_c(x: u64, fail_at: usize, rng: &mut SymRng) {
    let log = Log::new(fail_at);
    let op = P { id: 1, log: &log }
        .then(P { id: 2, log: &log }.and(P { id: 3, log: &log }.then(P { id: 4, log: &log })))
        .then(PPair { id: 5, log: &log });
    let r = op.apply(x, rng);
    check_log(&log, rng, &[1, 2, 3, 4, 5], calls_until(fail_at, 5));
    let a = mix(1, x, rng.log[0]);
    let b = mix(2, a, rng.log[1]);
    let c = mix(4, mix(3, a, rng.log[2]), rng.log[3]);
    match r {
        Ok(v) => {
            assert!(fail_at >= 5, "C14 nest C: Ok despite failure");
            assert!(v == mix(5, b.rotate_left(17) ^ c, rng.log[4]), "C14 nest C: output");
        }
        Err(e) => {
            assert!(fail_at < 5, "C14 nest C: Err without failure");
            assert!(root_probe_deep(&e) == Some(PErr((fail_at + 1) as u8)), "C14 nest C: root error is the failing probe's");
            assert!(blamed_part(&e) == if fail_at < 4 { 1 } else { 2 }, "C14 nest C: outer blame");
        }
    }
}
pub fn root_probe_deep(e: &(dyn std::error::Error + 'static)) -> Option<PErr> {
    let mut cur: &(dyn std::error::Error + 'static) = e;
    let mut depth = 0;
    while depth < 6 {
        if let Some(p) = cur.downcast_ref::<PErr>() {
            return Some(*p);
        }
        match cur.source() {
            Some(n) => cur = n,
            None => return None,
        }
        depth += 1;
    }
    None
}

/// wrappers add no behaviour: no log entries, no draws of their own, same result / error
pub fn check_wrappers_plain(x: u64, c: u64, g: u8, rng: &mut SymRng) {
    let v = Identity.apply(x, rng).unwrap();
    assert!(v == x && rng.draws() == 0, "C14 identity");
    let k = Constant::new(c);
    assert!(Operator::<u64>::apply(&k, x, rng).unwrap() == c && rng.draws() == 0, "C14 constant");
    assert!(Operator::<u64>::apply(&k, c, rng).unwrap() == c, "C14 constant twice");
    let ind = EcIndividual::new([g, g.wrapping_add(1)], x);
    let out = GenomeExtractor.apply(&ind, rng).unwrap();
    assert!(out == [g, g.wrapping_add(1)] && rng.draws() == 0, "C14 genome extractor");
    assert!(ind.genome == [g, g.wrapping_add(1)] && ind.test_results == x, "C14 genome extractor leaves the individual alone");
    // identity then constant: still no draws
    let op = Identity.then(Constant::new(c));
    // (no unwrap(): Debug of ThenError<Infallible, Infallible> crashes Kani's codegen)
    match op.apply(x, rng) {
        Ok(v) => assert!(v == c && rng.draws() == 0, "C14 identity.then(constant)"),
        Err(_) => assert!(false, "C14 identity.then(constant) failed"),
    }
}

pub fn check_select_wrapper(pop: [u8; 3], fail: bool, by_ref: bool, rng: &mut SymRng) {
    let log = Log::new(if fail { 0 } else { usize::MAX });
    let sel = PSel { id: 9, log: &log };
    let r = if by_ref { Select::new(&sel).apply(&pop, rng) } else { Select::new(PSel { id: 9, log: &log }).apply(&pop, rng) };
    check_log(&log, rng, &[9], 1);
    match r {
        Ok(w) => {
            assert!(!fail, "C14 select: Ok despite failure");
            let idx = (rng.log[0] % 3) as usize;
            assert!(std::ptr::eq(w, &pop[idx]), "C14 select wrapper returns the selector's pick");
        }
        Err(e) => assert!(fail && e == PErr(9), "C14 select wrapper error"),
    }
}

pub fn check_mutate_wrapper(g: u64, fail: bool, flavour: u8, rng: &mut SymRng) {
    let log = Log::new(if fail { 0 } else { usize::MAX });
    let mut m = PMut { id: 4, log: &log };
    let r = match flavour {
        0 => Mutate::new(PMut { id: 4, log: &log }).apply(g, rng),
        1 => Mutate::new(&m).apply(g, rng),
        _ => Mutate::new(&mut m).apply(g, rng),
    };
    check_log(&log, rng, &[4], 1);
    assert!(log.borrow().e[0].input == g, "C14 mutate wrapper passes the genome");
    match r {
        Ok(v) => assert!(!fail && v == mix(4, g, rng.log[0]), "C14 mutate wrapper result"),
        Err(e) => assert!(fail && e == PErr(4), "C14 mutate wrapper error"),
    }
}

pub fn check_recombine_wrapper(a: u64, b: u64, fail: bool, by_ref: bool, rng: &mut SymRng) {
    let log = Log::new(if fail { 0 } else { usize::MAX });
    let rec = PRec { id: 6, log: &log };
    let r = if by_ref { Recombine::new(&rec).apply((a, b), rng) } else { Recombine::new(PRec { id: 6, log: &log }).apply((a, b), rng) };
    check_log(&log, rng, &[6], 1);
    let inp = a.rotate_left(17) ^ b;
    assert!(log.borrow().e[0].input == inp, "C14 recombine wrapper passes the genomes");
    match r {
        Ok(v) => assert!(!fail && v == mix(6, inp, rng.log[0]), "C14 recombine wrapper result"),
        Err(e) => assert!(fail && e == PErr(6), "C14 recombine wrapper error"),
    }
}

/// select -> extract genome -> mutate pipeline (the typical child maker shape)
pub fn check_pipeline(pop: [u64; 2], fail_at: usize, rng: &mut SymRng) {
    let log = Log::new(fail_at);
    let inds = [EcIndividual::new(pop[0], 0u8), EcIndividual::new(pop[1], 1u8)];
    let op = Select::new(PSel { id: 9, log: &log }).then(GenomeExtractor).then(Mutate::new(PMut { id: 4, log: &log }));
    let r = op.apply(&inds, rng);
    check_log(&log, rng, &[9, 4], calls_until(fail_at, 2));
    match r {
        Ok(v) => {
            assert!(fail_at >= 2, "C14 pipeline: Ok despite failure");
            let g = pop[(rng.log[0] % 2) as usize];
            assert!(log.borrow().e[1].input == g, "C14 pipeline: mutator sees the selected genome");
            assert!(v == mix(4, g, rng.log[1]), "C14 pipeline: output");
        }
        Err(e) => {
            assert!(fail_at < 2, "C14 pipeline: Err without failure");
            assert!(blamed_part(&e) == if fail_at == 0 { 1 } else { 2 }, "C14 pipeline: blame");
        }
    }
}

#[cfg(kani)]
mod proofs {
    use super::*;

    fn fail_upto(n: usize) -> usize {
        let f: usize = kani::any();
        kani::assume(f <= n);
        f
    }

    #[kani::proof]
    #[kani::unwind(6)]
    fn c14_then() {
        let mut rng = SymRng::new();
        let fail_at = fail_upto(2);
        check_then(kani::any(), fail_at, &mut rng);
        crate::witness!(fail_at == 0, "WITNESS first fails");
        crate::witness!(fail_at == 1, "WITNESS second fails");
        crate::witness!(fail_at == 2, "WITNESS none fails");
    }
    #[kani::proof]
    #[kani::unwind(6)]
    fn c14_and() {
        let mut rng = SymRng::new();
        let fail_at = fail_upto(2);
        check_and(kani::any(), fail_at, &mut rng);
        crate::witness!(fail_at == 0, "WITNESS first fails");
        crate::witness!(fail_at == 1, "WITNESS second fails");
        crate::witness!(fail_at == 2, "WITNESS none fails");
    }
    #[kani::proof]
    #[kani::unwind(6)]
    fn c14_map_arr2() {
        let mut rng = SymRng::new();
        let fail_at = fail_upto(2);
        check_map_arr2(kani::any(), fail_at, &mut rng);
        crate::witness!(fail_at == 1, "WITNESS second element fails");
        crate::witness!(fail_at == 2, "WITNESS none fails");
    }
    #[kani::proof]
    #[kani::unwind(6)]
    fn c14_map_tuple() {
        let mut rng = SymRng::new();
        let fail_at = fail_upto(2);
        check_map_tuple(kani::any(), fail_at, &mut rng);
        crate::witness!(fail_at == 0, "WITNESS first element fails");
        crate::witness!(fail_at == 2, "WITNESS none fails");
    }
    macro_rules! vec_inst { ($($name:ident = <$l:literal>;)*) => {$(
        #[kani::proof]
        #[kani::unwind(7)]
        fn $name() {
            let mut rng = SymRng::new();
            let fail_at = fail_upto($l);
            check_map_vec::<$l>(kani::any(), fail_at, &mut rng);
            crate::witness!(fail_at == $l, "WITNESS none fails");
            crate::witness!(fail_at + 1 == $l || $l == 0, "WITNESS last element fails");
        }
    )*}; }
    vec_inst! { c14_map_vec_0 = <0>; c14_map_vec_1 = <1>; c14_map_vec_2 = <2>; c14_map_vec_3 = <3>; }

    macro_rules! rep_inst { ($($name:ident = <$l:literal>;)*) => {$(
        #[kani::proof]
        #[kani::unwind(7)]
        fn $name() {
            let mut rng = SymRng::new();
            let fail_at = fail_upto($l);
            check_repeat::<$l>(kani::any(), fail_at, &mut rng);
            crate::witness!(fail_at == $l, "WITNESS none fails");
            crate::witness!(fail_at + 1 == $l || $l == 0, "WITNESS last repetition fails");
        }
    )*}; }
    rep_inst! { c14_repeat_0 = <0>; c14_repeat_1 = <1>; c14_repeat_2 = <2>; c14_repeat_3 = <3>; }

    #[kani::proof]
    #[kani::unwind(7)]
    fn c14_twice() {
        let mut rng = SymRng::new();
        let fail_at = fail_upto(2);
        check_twice(kani::any(), fail_at, &mut rng);
        crate::witness!(fail_at == 1, "WITNESS second fails");
    }
    #[kani::proof]
    #[kani::unwind(7)]
    fn c14_nest_a() {
        let mut rng = SymRng::new();
        let fail_at = fail_upto(4);
        check_nest_a(kani::any(), fail_at, &mut rng);
        crate::witness!(fail_at == 1, "WITNESS inner second fails");
        crate::witness!(fail_at == 3, "WITNESS last map element fails");
        crate::witness!(fail_at == 4, "WITNESS none fails");
    }
    #[cfg(feature = "thorough")]
    #[kani::proof]
    #[kani::unwind(8)]
    fn c14_t_nest_b4() {
        let mut rng = SymRng::new();
        let fail_at = fail_upto(4);
        check_nest_b4(kani::any(), fail_at, &mut rng);
        crate::witness!(fail_at == 2, "WITNESS second repetition's first part fails");
        crate::witness!(fail_at == 4, "WITNESS none fails");
    }
    #[cfg(feature = "thorough")]
    #[kani::proof]
    #[kani::unwind(8)]
    fn c14_t_nest_b6() {
        let mut rng = SymRng::new();
        let fail_at = fail_upto(6);
        check_nest_b(kani::any(), fail_at, &mut rng);
        crate::witness!(fail_at == 2, "WITNESS second repetition's first part fails");
        crate::witness!(fail_at == 5, "WITNESS last map element fails");
        crate::witness!(fail_at == 6, "WITNESS none fails");
    }
    #[kani::proof]
    #[kani::unwind(8)]
    fn c14_nest_c() {
        let mut rng = SymRng::new();
        let fail_at = fail_upto(5);
        check_nest_c(kani::any(), fail_at, &mut rng);
        crate::witness!(fail_at == 3, "WITNESS innermost second fails");
        crate::witness!(fail_at == 5, "WITNESS none fails");
    }
    #[kani::proof]
    #[kani::unwind(6)]
    fn c14_wrappers_plain() {
        let mut rng = SymRng::new();
        check_wrappers_plain(kani::any(), kani::any(), kani::any(), &mut rng);
        crate::witness!(true, "WITNESS reached");
    }
    #[kani::proof]
    #[kani::unwind(6)]
    fn c14_select_wrapper() {
        let mut rng = SymRng::new();
        let (fail, by_ref): (bool, bool) = (kani::any(), kani::any());
        check_select_wrapper(kani::any(), fail, by_ref, &mut rng);
        crate::witness!(fail && by_ref, "WITNESS failing by reference");
        crate::witness!(!fail && !by_ref, "WITNESS ok by value");
    }
    #[kani::proof]
    #[kani::unwind(6)]
    fn c14_mutate_wrapper() {
        let mut rng = SymRng::new();
        let fail: bool = kani::any();
        let flavour: u8 = kani::any();
        kani::assume(flavour < 3);
        check_mutate_wrapper(kani::any(), fail, flavour, &mut rng);
        crate::witness!(fail && flavour == 2, "WITNESS failing by &mut");
        crate::witness!(!fail && flavour == 1, "WITNESS ok by &");
    }
    #[kani::proof]
    #[kani::unwind(6)]
    fn c14_recombine_wrapper() {
        let mut rng = SymRng::new();
        let (fail, by_ref): (bool, bool) = (kani::any(), kani::any());
        check_recombine_wrapper(kani::any(), kani::any(), fail, by_ref, &mut rng);
        crate::witness!(fail && !by_ref, "WITNESS failing by value");
        crate::witness!(!fail && by_ref, "WITNESS ok by reference");
    }
    #[kani::proof]
    #[kani::unwind(6)]
    fn c14_pipeline() {
        let mut rng = SymRng::new();
        let fail_at = fail_upto(2);
        check_pipeline(kani::any(), fail_at, &mut rng);
        crate::witness!(fail_at == 1, "WITNESS mutator fails");
        crate::witness!(fail_at == 2, "WITNESS none fails");
    }
}
