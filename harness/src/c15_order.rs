//! C15 — scores, errors and individuals are ordered and aggregated consistently.
use std::cell::Cell;
use std::cmp::Ordering;

use ec_core::individual::ec::{EcIndividual, IndividualGenerator, WithScorer};
use ec_core::individual::scorer::FnScorer;
use ec_core::individual::Individual;
use ec_core::operator::genome_scorer::GenomeScorer;
use ec_core::operator::Operator;
use ec_core::test_results::{Error, Score, TestResult, TestResults};
use rand::distr::Distribution;
use rand::Rng;

use crate::probes::{Log, PErr, P};
use crate::symrng::SymRng;

/// all six comparison operators + cmp/partial_cmp of `a ? b` agree with `expect`
pub fn consistent<T: Ord>(a: &T, b: &T, expect: Ordering) {
    assert!(a.cmp(b) == expect, "C15 cmp");
    assert!(a.partial_cmp(b) == Some(expect), "C15 partial_cmp disagrees with cmp");
    assert!((a < b) == (expect == Ordering::Less), "C15 <");
    assert!((a <= b) == (expect != Ordering::Greater), "C15 <=");
    assert!((a > b) == (expect == Ordering::Greater), "C15 >");
    assert!((a >= b) == (expect != Ordering::Less), "C15 >=");
    assert!((a == b) == (expect == Ordering::Equal), "C15 == disagrees with cmp");
    assert!(b.cmp(a) == expect.reverse(), "C15 antisymmetry");
}

pub fn check_score_error(a: i64, b: i64, c: i64) {
    // Score: ascending in the payload
    consistent(&Score(a), &Score(b), a.cmp(&b));
    // Error: exact reverse of the payload order
    consistent(&Error(a), &Error(b), b.cmp(&a));
    // lawful total orders
    let (sa, sb, sc) = (Score(a), Score(b), Score(c));
    assert!(sa.cmp(&sa) == Ordering::Equal, "C15 Score reflexive");
    assert!(sa <= sb || sb <= sa, "C15 Score total");
    if sa <= sb && sb <= sc {
        assert!(sa <= sc, "C15 Score transitive");
    }
    if sa <= sb && sb <= sa {
        assert!(sa == sb, "C15 Score antisymmetric");
    }
    let (ea, eb, ec) = (Error(a), Error(b), Error(c));
    assert!(ea.cmp(&ea) == Ordering::Equal, "C15 Error reflexive");
    assert!(ea <= eb || eb <= ea, "C15 Error total");
    if ea <= eb && eb <= ec {
        assert!(ea <= ec, "C15 Error transitive");
    }
    if ea <= eb && eb <= ea {
        assert!(ea == eb, "C15 Error antisymmetric");
    }
    // smaller error is better (greater), bigger score is better (greater)
    if a < b {
        assert!(Error(a) > Error(b) && Score(a) < Score(b), "C15 polarity");
    }
}

pub fn check_test_result(a: i64, b: i64) {
    type TR = TestResult<i64, i64>;
    let s: TR = TestResult::Score(Score(a));
    let e: TR = TestResult::Error(Error(b));
    // never comparable, never equal
    assert!(s.partial_cmp(&e).is_none() && e.partial_cmp(&s).is_none(), "C15 score vs error comparable");
    assert!(!(s < e) && !(s <= e) && !(s > e) && !(s >= e), "C15 score vs error operators");
    assert!(!(e < s) && !(e <= s) && !(e > s) && !(e >= s), "C15 error vs score operators");
    assert!(s != e && e != s, "C15 score == error");
    // same variant: as the payload type
    let s2: TR = TestResult::Score(Score(b));
    assert!(s.partial_cmp(&s2) == Some(a.cmp(&b)), "C15 TestResult::Score order");
    assert!((s == s2) == (a == b), "C15 TestResult::Score eq");
    let e1: TR = TestResult::Error(Error(a));
    assert!(e1.partial_cmp(&e) == Some(b.cmp(&a)), "C15 TestResult::Error order");
    assert!((e1 == e) == (a == b), "C15 TestResult::Error eq");
}

/// TestResults / EcIndividual compare exactly as their totals (whatever the per-case results and genome)
pub fn check_results_order<const LA: usize, const LB: usize>(
    ra: [i64; LA], rb: [i64; LB], ta: i64, tb: i64, ga: u8, gb: u8,
) {
    let a = TestResults { results: ra.iter().map(|&x| Score(x)).collect::<Vec<_>>(), total_result: Score(ta) };
    let b = TestResults { results: rb.iter().map(|&x| Score(x)).collect::<Vec<_>>(), total_result: Score(tb) };
    assert!(a.cmp(&b) == Score(ta).cmp(&Score(tb)), "C15 TestResults cmp != total cmp");
    assert!(a.partial_cmp(&b) == Score(ta).partial_cmp(&Score(tb)), "C15 TestResults partial_cmp != total");
    assert!(a.len() == LA && a.is_empty() == (LA == 0), "C15 TestResults len");
    let ia = EcIndividual::new(ga, a);
    let ib = EcIndividual::new(gb, b);
    assert!(ia.cmp(&ib) == Score(ta).cmp(&Score(tb)), "C15 EcIndividual cmp != total cmp");
    assert!(ia.partial_cmp(&ib) == Some(Score(ta).cmp(&Score(tb))), "C15 EcIndividual partial_cmp");
    assert!(*ia.genome() == ga && ia.test_results().total_result == Score(ta), "C15 accessors");
    // errors: reversed
    let ea = TestResults { results: ra.iter().map(|&x| Error(x)).collect::<Vec<_>>(), total_result: Error(ta) };
    let eb = TestResults { results: rb.iter().map(|&x| Error(x)).collect::<Vec<_>>(), total_result: Error(tb) };
    assert!(ea.cmp(&eb) == tb.cmp(&ta), "C15 TestResults<Error> cmp");
    assert!(ea.partial_cmp(&eb) == Some(tb.cmp(&ta)), "C15 TestResults<Error> partial_cmp");
    let ja = EcIndividual::new(ga, ea);
    let jb = EcIndividual::new(gb, eb);
    assert!(ja.cmp(&jb) == tb.cmp(&ta), "C15 EcIndividual<Error> cmp");
    std::mem::forget((ia, ib, ja, jb));
}

/// TestResults::from keeps the order given and totals to the sum
pub fn check_from<const L: usize>(v: [i64; L]) {
    // assumption (stated): the mathematical sum fits in i64
    let mut sum: i128 = 0;
    for x in v.iter() {
        sum += *x as i128;
    }
    let fits = sum >= i64::MIN as i128 && sum <= i64::MAX as i128;
    // partial sums must fit too (left-to-right accumulation)
    let mut acc: i128 = 0;
    let mut partial_ok = true;
    for x in v.iter() {
        acc += *x as i128;
        if acc < i64::MIN as i128 || acc > i64::MAX as i128 {
            partial_ok = false;
        }
    }
    if !(fits && partial_ok) {
        return;
    }
    let s: TestResults<Score<i64>> = v.iter().copied().into();
    assert!(s.results.len() == L, "C15 from: length");
    for i in 0..L {
        assert!(s.results[i] == Score(v[i]), "C15 from: order/value of per-case results");
    }
    assert!(s.total_result == Score(sum as i64), "C15 from: total != sum (Score)");
    let e: TestResults<Error<i64>> = v.iter().copied().into();
    for i in 0..L {
        assert!(e.results[i] == Error(v[i]), "C15 from: order/value of per-case results (Error)");
    }
    assert!(e.total_result == Error(sum as i64), "C15 from: total != sum (Error)");
    let s2: TestResults<Score<i64>> = v.to_vec().into();
    assert!(s2.total_result == Score(sum as i64) && s2.results.len() == L, "C15 from Vec");
    std::mem::forget((s, e, s2));
}

/// genome generator probe: the genome is the word drawn
pub struct WordGen;
impl Distribution<u64> for WordGen {
    fn sample<R: Rng + ?Sized>(&self, rng: &mut R) -> u64 {
        rng.next_u64()
    }
}

pub fn score_fn(g: u64) -> i64 {
    (g.rotate_left(7) ^ 0x5a5a) as i64
}

pub fn check_individual_generator(rng: &mut SymRng) {
    let calls = Cell::new(0usize);
    let seen = Cell::new(0u64);
    let scorer = FnScorer(|g: &u64| {
        calls.set(calls.get() + 1);
        seen.set(*g);
        Score(score_fn(*g))
    });
    let generator = WordGen.with_scorer(scorer);
    let ind: EcIndividual<u64, Score<i64>> = generator.sample(rng);
    let w = rng.log[0];
    assert!(rng.draws() == 1, "C15 IndividualGenerator: draws");
    assert!(ind.genome == w, "C15 IndividualGenerator: genome is not the generated genome");
    assert!(calls.get() == 1 && seen.get() == w, "C15 IndividualGenerator: scorer not called once on that genome");
    assert!(ind.test_results == Score(score_fn(w)), "C15 IndividualGenerator: result is not the scorer's value for the genome");
}

pub fn check_genome_scorer(rng: &mut SymRng, fail: bool) {
    let log = Log::new(if fail { 0 } else { usize::MAX });
    let calls = Cell::new(0usize);
    let scorer = FnScorer(|g: &u64| {
        calls.set(calls.get() + 1);
        Score(score_fn(*g))
    });
    // genome maker: a probe operator on &population that ignores the population's content
    struct Maker<'a>(P<'a>);
    impl<'a> ec_core::operator::Composable for Maker<'a> {}
    impl<'a, 'p> Operator<&'p [u8; 2]> for Maker<'a> {
        type Output = u64;
        type Error = PErr;
        fn apply<R: Rng + ?Sized>(&self, p: &'p [u8; 2], rng: &mut R) -> Result<u64, PErr> {
            self.0.apply(p[0] as u64, rng)
        }
    }
    let gs = GenomeScorer::new(Maker(P { id: 3, log: &log }), scorer);
    let pop = [7u8, 9u8];
    let r = gs.apply(&pop, rng);
    let w = rng.log[0];
    assert!(rng.draws() == 1 && log.borrow().n == 1, "C15 GenomeScorer: maker called once");
    match r {
        Ok(ind) => {
            assert!(!fail, "C15 GenomeScorer: Ok although maker failed");
            let g = crate::probes::mix(3, 7, w);
            assert!(ind.genome == g, "C15 GenomeScorer: genome is not the maker's output");
            assert!(ind.test_results == Score(score_fn(g)), "C15 GenomeScorer: score is not the scorer's value for the genome");
            assert!(calls.get() == 1, "C15 GenomeScorer: scorer calls");
        }
        Err(e) => {
            assert!(fail && e == PErr(3), "C15 GenomeScorer: error");
            assert!(calls.get() == 0, "C15 GenomeScorer: scorer ran after failure");
        }
    }
}

#[cfg(kani)]
mod proofs {
    use super::*;

    #[kani::proof]
    fn c15_score_error_order() {
        let (a, b, c): (i64, i64, i64) = (kani::any(), kani::any(), kani::any());
        check_score_error(a, b, c);
        crate::witness!(a < b && b < c, "WITNESS strictly increasing triple");
        crate::witness!(a == b && a == i64::MIN, "WITNESS equal extremes");
    }

    #[kani::proof]
    fn c15_test_result_mixed() {
        let (a, b): (i64, i64) = (kani::any(), kani::any());
        check_test_result(a, b);
        crate::witness!(a == b, "WITNESS equal payloads");
    }

    macro_rules! ord_inst {
        ($($name:ident = <$la:literal, $lb:literal>;)*) => {$(
            #[kani::proof]
            #[kani::unwind(6)]
            fn $name() {
                check_results_order::<$la, $lb>(kani::any(), kani::any(), kani::any(), kani::any(), kani::any(), kani::any());
                crate::witness!(true, "WITNESS reached");
            }
        )*};
    }
    ord_inst! {
        c15_results_order_0_0 = <0, 0>; c15_results_order_0_2 = <0, 2>; c15_results_order_1_1 = <1, 1>;
        c15_results_order_3_1 = <3, 1>; c15_results_order_3_3 = <3, 3>;
    }

    macro_rules! from_inst {
        ($($name:ident = <$l:literal>;)*) => {$(
            #[kani::proof]
            #[kani::unwind(6)]
            fn $name() {
                let v: [i64; $l] = kani::any();
                check_from::<$l>(v);
                crate::witness!(true, "WITNESS reached");
            }
        )*};
    }
    from_inst! { c15_from_0 = <0>; c15_from_1 = <1>; c15_from_2 = <2>; c15_from_3 = <3>; c15_from_4 = <4>; }

    // lengths just past the usual block sizes of a chunked / vectorised summation (seed C15-c: chunks_exact(16) without
    // the remainder); values are small so that no partial sum overflows and the cost stays linear
    macro_rules! from_long {
        ($($name:ident = <$l:literal>, $u:literal;)*) => {$(
            #[kani::proof]
            #[kani::unwind($u)]
            fn $name() {
                let small: [i16; $l] = kani::any();
                let mut v = [0i64; $l];
                let mut i = 0;
                while i < $l {
                    v[i] = small[i] as i64;
                    i += 1;
                }
                check_from::<$l>(v);
                crate::witness!(small[$l - 1] != 0, "WITNESS last result non-zero");
            }
        )*};
    }
    from_long! { c15_from_9 = <9>, 11; c15_from_17 = <17>, 19; }
    #[cfg(feature = "thorough")]
    from_long! { c15_t_from_33 = <33>, 35; c15_t_from_65 = <65>, 67; }

    #[kani::proof]
    fn c15_individual_generator() {
        let mut rng = SymRng::new();
        check_individual_generator(&mut rng);
        crate::witness!(rng.log[0] == u64::MAX, "WITNESS extreme genome");
    }

    #[kani::proof]
    fn c15_genome_scorer() {
        let mut rng = SymRng::new();
        let fail: bool = kani::any();
        check_genome_scorer(&mut rng, fail);
        crate::witness!(fail, "WITNESS failing maker");
        crate::witness!(!fail, "WITNESS succeeding maker");
    }
}
