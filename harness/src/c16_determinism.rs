//! C16 -- all randomness comes from the supplied generator; evaluation is deterministic.
//! Self-composition: every operation is run twice from two clones of one symbolic tape; results and
//! generator states must be equal; a second pair of runs interleaves calls on ONE operator value (no
//! hidden state).  Library code reaching any other entropy source (thread RNG, OS, time) cannot be
//! compiled into a Kani harness at all: the build fails / CBMC reports a missing definition.
use std::num::NonZeroUsize;

use ec_core::distributions::collection::ConvertToCollectionGenerator;
use ec_core::distributions::conversion::IntoDistribution;
use ec_core::individual::ec::{EcIndividual, WithScorer};
use ec_core::operator::composable::Composable;
use ec_core::operator::mutator::{Mutate, Mutator};
use ec_core::operator::recombinator::Recombinator;
use ec_core::operator::selector::best::Best;
use ec_core::operator::selector::random::Random;
use ec_core::operator::selector::tournament::Tournament;
use ec_core::operator::selector::worst::Worst;
use ec_core::operator::selector::{Select, Selector};
use ec_core::operator::Operator;
use ec_core::test_results::Score;
use ec_core::weighted::with_weighted_item::WithWeightedItem;
use ec_core::weighted::Weighted;
use ec_linear::genome::bitstring::Bitstring;
use ec_linear::mutator::with_rate::WithRate;
use ec_linear::recombinator::two_point_xo::TwoPointXo;
use ec_linear::recombinator::uniform_xo::UniformXo;
use push::genome::plushy::{ConvertToGeneGenerator, PushGene};
use push::instruction::{IntInstruction, PushInstruction};
use rand::distr::Distribution;
use rand::Rng;

use crate::symrng::TapeRng;

pub const T: usize = 6;
pub type Tape = TapeRng<T>;

/// run `f` from two clones of the tape; results equal (by `same`), generator states equal
pub fn twice<X>(tape: &Tape, f: impl Fn(&mut Tape) -> X, same: impl Fn(&X, &X) -> bool) -> X {
    let mut r1 = tape.clone();
    let mut r2 = tape.clone();
    let a = f(&mut r1);
    let b = f(&mut r2);
    assert!(same(&a, &b), "C16 two runs from equal generator states returned different results");
    assert!(r1.same_state(&r2), "C16 two runs from equal generator states left the generators in different states");
    std::mem::forget(b);
    a
}

/// two consecutive calls on ONE operator value from one generator, compared with the same two calls on a
/// fresh operator value each: no hidden state inside the operator
pub fn interleaved<X, Op>(tape: &Tape, mk: impl Fn() -> Op, call: impl Fn(&Op, &mut Tape) -> X, same: impl Fn(&X, &X) -> bool) {
    let mut r1 = tape.clone();
    let op = mk();
    let a1 = call(&op, &mut r1);
    let a2 = call(&op, &mut r1);
    let mut r2 = tape.clone();
    let b1 = call(&mk(), &mut r2);
    let b2 = call(&mk(), &mut r2);
    assert!(same(&a1, &b1) && same(&a2, &b2), "C16 repeated calls on one operator value differ from calls on fresh operator values (hidden state)");
    assert!(r1.same_state(&r2), "C16 repeated calls: generator states differ");
    std::mem::forget((a1, a2, b1, b2, op));
}

fn ptr_same<'a, T>(a: &Option<&'a T>, b: &Option<&'a T>) -> bool {
    match (a, b) {
        (Some(x), Some(y)) => std::ptr::eq(*x, *y),
        (None, None) => true,
        _ => false,
    }
}

pub fn selectors(pop: &[i32; 3], tape: &Tape) {
    moved(&Best, pop, tape);
    moved(&Worst, pop, tape);
    moved(&Random, pop, tape);
    twice(tape, |r| Best.select(pop, r).ok(), ptr_same);
    twice(tape, |r| Worst.select(pop, r).ok(), ptr_same);
    twice(tape, |r| Random.select(pop, r).ok(), ptr_same);
    interleaved(tape, || Random, |s, r| s.select(pop, r).ok(), ptr_same);
}
/// the same call on the population and on a COPY of it stored elsewhere, from clones of one tape: the selected
/// POSITION must agree (nothing but contents and generator state - in particular no address - may matter)
pub fn moved<S: Selector<[i32; 3]>>(sel: &S, pop: &[i32; 3], tape: &Tape) {
    let copy: [i32; 3] = *pop;
    let (mut r1, mut r2) = (tape.clone(), tape.clone());
    let pos = |p: &[i32; 3], x: &i32| unsafe { (x as *const i32).offset_from(p.as_ptr()) };
    let a = sel.select(pop, &mut r1).ok().map(|x| pos(pop, x));
    let b = sel.select(&copy, &mut r2).ok().map(|x| pos(&copy, x));
    assert!(a == b, "C16 the selection depends on where the population is stored, not only on its contents and the generator state");
    assert!(r1.same_state(&r2), "C16 moved population: generator states differ");
}
pub fn tournament(pop: &[i32; 3], tape: &Tape) {
    twice(tape, |r| Tournament::binary().select(pop, r).ok(), ptr_same);
    interleaved(tape, || Select::new(Tournament::binary()), |s, r| s.apply(pop, r).ok(), ptr_same);
}
pub fn weighted(pop: &[i32; 3], a: u32, b: u32, tape: &Tape) {
    if a as u64 + b as u64 > u32::MAX as u64 {
        return;
    }
    let mk = || match Weighted::new(Best, a).with_item_and_weight(Random, b) { Ok(s) => s, Err(_) => panic!("C16 chain rejected") };
    twice(tape, |r| mk().select(pop, r).ok(), ptr_same);
    interleaved(tape, mk, |s, r| s.select(pop, r).ok(), ptr_same);
}
pub fn mutators(g: [bool; 3], rate: f32, tape: &Tape) {
    let same = |a: &Vec<bool>, b: &Vec<bool>| a.len() == 3 && b.len() == 3 && a[0] == b[0] && a[1] == b[1] && a[2] == b[2];
    twice(tape, |r| WithRate::new(rate).mutate(g.to_vec(), r).unwrap(), same);
    interleaved(tape, || Mutate::new(WithRate::new(rate)), |m, r| m.apply(g.to_vec(), r).unwrap(), same);
}
pub fn recombinators(a: [u8; 3], b: [u8; 3], tape: &Tape) {
    let same = |x: &Vec<u8>, y: &Vec<u8>| x.len() == 3 && y.len() == 3 && x[0] == y[0] && x[1] == y[1] && x[2] == y[2];
    twice(tape, |r| TwoPointXo.recombine([a.to_vec(), b.to_vec()], r).unwrap(), same);
    twice(tape, |r| UniformXo.recombine((a.to_vec(), b.to_vec()), r).unwrap(), same);
    interleaved(tape, || UniformXo, |x, r| x.recombine([a.to_vec(), b.to_vec()], r).unwrap(), same);
}
pub struct WordGen;
impl Distribution<u64> for WordGen {
    fn sample<R: Rng + ?Sized>(&self, rng: &mut R) -> u64 {
        rng.next_u64()
    }
}
pub fn generators(tape: &Tape) {
    let same_v = |x: &Vec<u64>, y: &Vec<u64>| x.len() == 2 && y.len() == 2 && x[0] == y[0] && x[1] == y[1];
    twice(tape, |r| WordGen.to_collection_generator(2).sample(r), same_v);
    let same_b = |x: &Bitstring, y: &Bitstring| x.bits.len() == 2 && y.bits.len() == 2 && x.bits[0] == y.bits[0] && x.bits[1] == y.bits[1];
    twice(tape, |r| Bitstring::random(2, r), same_b);
    twice(tape, |r| Bitstring::random_with_probability(2, 0.3, r), same_b);
    let same_i = |x: &EcIndividual<u64, Score<i64>>, y: &EcIndividual<u64, Score<i64>>| x.genome == y.genome && x.test_results == y.test_results;
    twice(tape, |r| WordGen.with_scorer_fn(|g: &u64| Score(*g as i64 ^ 5)).sample(r), same_i);
    let d = [10u8, 11, 12].into_distribution().unwrap();
    twice(tape, |r| d.sample(r), |x: &u8, y: &u8| x == y);
    interleaved(tape, || [10u8, 11, 12].into_distribution().unwrap(), |d, r| d.sample(r), |x: &u8, y: &u8| x == y);
}
pub struct InstrGen;
impl Distribution<PushInstruction> for InstrGen {
    fn sample<R: Rng + ?Sized>(&self, rng: &mut R) -> PushInstruction {
        PushInstruction::IntInstruction(IntInstruction::push((rng.next_u64() >> 1) as i64))
    }
}
pub fn plushy_genes(p: f32, tape: &Tape) {
    let same = |x: &PushGene, y: &PushGene| match (x, y) {
        (PushGene::Close, PushGene::Close) => true,
        (PushGene::Instruction(PushInstruction::IntInstruction(IntInstruction::Push(a))), PushGene::Instruction(PushInstruction::IntInstruction(IntInstruction::Push(b)))) => a.0 == b.0,
        _ => false,
    };
    // (the returned gene is forgotten: the drop glue of a PushInstruction explores every variant)
    std::mem::forget(twice(tape, |r| InstrGen.into_gene_generator_with_close_probability(p).sample(r), same));
}

#[cfg(kani)]
mod proofs {
    use super::*;

    #[kani::proof]
    #[kani::unwind(8)]
    fn c16_selectors() {
        let pop: [i32; 3] = kani::any();
        selectors(&pop, &Tape::any());
        crate::witness!(pop[0] == pop[1], "WITNESS duplicates");
    }
    #[kani::proof]
    #[kani::unwind(14)]
    fn c16_tournament_moved() {
        let pop: [i32; 3] = kani::any();
        moved(&Tournament::binary(), &pop, &Tape::any());
        crate::witness!(pop[0] == pop[1] && pop[1] == pop[2], "WITNESS all tied");
    }
    #[kani::proof]
    #[kani::unwind(14)]
    fn c16_tournament() {
        let pop: [i32; 3] = kani::any();
        tournament(&pop, &Tape::any());
        crate::witness!(true, "WITNESS reached");
    }
    #[kani::proof]
    #[kani::unwind(8)]
    fn c16_weighted() {
        let pop: [i32; 3] = kani::any();
        let (a, b): (u32, u32) = (kani::any(), kani::any());
        kani::assume(a <= 3 && b <= 3);
        weighted(&pop, a, b, &Tape::any());
        crate::witness!(a == 0 && b == 0, "WITNESS zero weights");
        crate::witness!(a == 1 && b == 2, "WITNESS positive weights");
    }
    #[kani::proof]
    #[kani::unwind(8)]
    fn c16_mutators() {
        let rate: f32 = kani::any();
        kani::assume(rate >= 0.0 && rate <= 1.0);
        mutators(kani::any(), rate, &Tape::any());
        crate::witness!(rate > 0.3 && rate < 0.6, "WITNESS interior rate");
    }
    #[kani::proof]
    #[kani::unwind(8)]
    fn c16_recombinators() {
        recombinators(kani::any(), kani::any(), &Tape::any());
        crate::witness!(true, "WITNESS reached");
    }
    #[kani::proof]
    #[kani::unwind(8)]
    fn c16_generators() {
        generators(&Tape::any());
        crate::witness!(true, "WITNESS reached");
    }
    #[kani::proof]
    #[kani::unwind(8)]
    fn c16_plushy_genes() {
        let p: f32 = kani::any();
        kani::assume(p >= 0.0 && p <= 1.0);
        plushy_genes(p, &Tape::any());
        crate::witness!(p > 0.3 && p < 0.6, "WITNESS interior close probability");
    }
}
