//! C18 — generators deliver exactly the requested collections and uniform member choices.
use std::num::NonZeroUsize;

use ec_core::distributions::choices::ChoicesDistribution;
use ec_core::distributions::collection::{ConvertToCollectionGenerator, Generator};
use ec_core::distributions::conversion::{IntoDistribution, ToDistribution};
use ec_core::individual::ec::{EcIndividual, WithScorer};
use ec_core::test_results::Score;
use ec_core::uniform_distribution_of;
use ec_linear::genome::bitstring::Bitstring;
use rand::distr::Distribution;
use rand::Rng;

use crate::symrng::{SymRng, TapeRng};

pub const T: usize = 3;

/// rand 0.9.0 uniform index in 0..n (n < 2^32): draw 32-bit words until
/// (w*n mod 2^32) >= (2^32 mod n); the index is floor(w*n / 2^32).  Every index has exactly
/// floor(2^32/n) accepted words (Lemire), hence exact uniformity.
pub fn expected_index(tape: &TapeRng<T>, start: usize, n: usize) -> (usize, usize) {
    let thresh = ((1u64 << 32) % n as u64) as u32;
    let mut k = start;
    loop {
        let w = (if k < T { tape.tape[k] } else { tape.tail }) as u32;
        let m = w as u64 * n as u64;
        let (hi, lo) = ((m >> 32) as usize, m as u32);
        k += 1;
        if lo >= thresh {
            return (hi, k);
        }
    }
}

/// one sample from `d`, mapped to a member index by `ix`; checks membership, the index law and
/// the stream consumption
pub fn check_choice<X, D>(d: &D, n: usize, rng: &mut TapeRng<T>, mut ix: impl FnMut(X) -> Option<usize>)
where
    D: Distribution<X> + ChoicesDistribution,
{
    assert!(d.num_choices().get() == n, "C18 num_choices differs from the number of members it was built from");
    let start = rng.cursor;
    let before = rng.clone();
    let x = d.sample(rng);
    let j = ix(x);
    assert!(j.is_some(), "C18 uniform choice returned something that is not a member of the collection");
    let (want, end) = expected_index(&before, start, n);
    assert!(j == Some(want), "C18 uniform choice: index is not the uniform variate floor(w*n/2^32) of the accepted word");
    assert!(rng.cursor == end, "C18 uniform choice: stream consumption");
}

pub fn members<const N: usize>() -> [u8; N] {
    let mut m = [0u8; N];
    let mut i = 0;
    while i < N {
        m[i] = 10 + i as u8;
        i += 1;
    }
    m
}
fn by_value<const N: usize>(v: u8) -> Option<usize> {
    if v >= 10 && ((v - 10) as usize) < N { Some((v - 10) as usize) } else { None }
}
fn by_identity<'a>(m: &'a [u8], r: &'a u8) -> Option<usize> {
    let mut j = 0;
    while j < m.len() {
        if std::ptr::eq(r, &m[j]) {
            return Some(j);
        }
        j += 1;
    }
    None
}

/// returns the index chosen by the FIRST sample (drawn from the symbolic part of the tape)
pub fn array_flavours<const N: usize>(rng: &mut TapeRng<T>) -> usize {
    let m = members::<N>();
    let mut last = 0;
    // owning
    match IntoDistribution::<u8>::into_distribution(m) {
        Ok(d) => { assert!(N > 0, "C18 [T;0] accepted"); check_choice(&d, N, rng, |v: u8| { let j = by_value::<N>(v); last = j.unwrap_or(0); j }); }
        Err(_) => assert!(N == 0, "C18 non-empty array rejected"),
    }
    // borrowing (returns a reference to the very element)
    match IntoDistribution::<&u8>::into_distribution(&m) {
        Ok(d) => { assert!(N > 0, "C18 &[T;0] accepted"); check_choice(&d, N, rng, |r: &u8| { by_identity(&m, r) }); }
        Err(_) => assert!(N == 0, "C18 non-empty &array rejected"),
    }
    // cloning from a borrow
    match IntoDistribution::<u8>::into_distribution(&m) {
        Ok(d) => { assert!(N > 0, "C18 &[T;0] accepted (cloning)"); check_choice(&d, N, rng, |v: u8| by_value::<N>(v)); }
        Err(_) => assert!(N == 0, "C18 non-empty &array rejected (cloning)"),
    }
    match ToDistribution::<u8>::to_distribution(&m) {
        Ok(d) => { assert!(N > 0, "C18 [T;0].to_distribution accepted"); check_choice(&d, N, rng, |v: u8| { let j = by_value::<N>(v); j }); }
        Err(_) => assert!(N == 0, "C18 non-empty array rejected (to_distribution)"),
    }
    match ToDistribution::<&u8>::to_distribution(&m) {
        Ok(d) => { assert!(N > 0, "C18 [T;0].to_distribution::<&T> accepted"); check_choice(&d, N, rng, |r: &u8| by_identity(&m, r)); }
        Err(_) => assert!(N == 0, "C18 non-empty array rejected (to_distribution::<&T>)"),
    }
    last
}

pub fn vec_flavours<const N: usize>(rng: &mut TapeRng<T>) {
    let m = members::<N>().to_vec();
    match IntoDistribution::<u8>::into_distribution(m.clone()) {
        Ok(d) => { assert!(N > 0, "C18 empty Vec accepted"); check_choice(&d, N, rng, |v: u8| by_value::<N>(v)); std::mem::forget(d); }
        Err(_) => assert!(N == 0, "C18 non-empty Vec rejected"),
    }
    match IntoDistribution::<&u8>::into_distribution(&m) {
        Ok(d) => { assert!(N > 0, "C18 empty &Vec accepted"); check_choice(&d, N, rng, |r: &u8| by_identity(&m, r)); }
        Err(_) => assert!(N == 0, "C18 non-empty &Vec rejected"),
    }
    match IntoDistribution::<u8>::into_distribution(&m) {
        Ok(d) => { assert!(N > 0, "C18 empty &Vec accepted (cloning)"); check_choice(&d, N, rng, |v: u8| by_value::<N>(v)); }
        Err(_) => assert!(N == 0, "C18 non-empty &Vec rejected (cloning)"),
    }
    match ToDistribution::<u8>::to_distribution(&m) {
        Ok(d) => { assert!(N > 0, "C18 empty Vec.to_distribution accepted"); check_choice(&d, N, rng, |v: u8| by_value::<N>(v)); }
        Err(_) => assert!(N == 0, "C18 non-empty Vec rejected (to_distribution)"),
    }
    match ToDistribution::<&u8>::to_distribution(&m) {
        Ok(d) => { assert!(N > 0, "C18 empty Vec.to_distribution::<&T> accepted"); check_choice(&d, N, rng, |r: &u8| by_identity(&m, r)); }
        Err(_) => assert!(N == 0, "C18 non-empty Vec rejected (to_distribution::<&T>)"),
    }
    std::mem::forget(m);
}

pub fn slice_flavours<const N: usize>(rng: &mut TapeRng<T>) {
    let arr = members::<N>();
    let m: &[u8] = &arr[..];
    match IntoDistribution::<&u8>::into_distribution(m) {
        Ok(d) => { assert!(N > 0, "C18 empty slice accepted"); check_choice(&d, N, rng, |r: &u8| by_identity(m, r)); }
        Err(_) => assert!(N == 0, "C18 non-empty slice rejected"),
    }
    match IntoDistribution::<u8>::into_distribution(m) {
        Ok(d) => { assert!(N > 0, "C18 empty slice accepted (cloning)"); check_choice(&d, N, rng, |v: u8| by_value::<N>(v)); }
        Err(_) => assert!(N == 0, "C18 non-empty slice rejected (cloning)"),
    }
    match ToDistribution::<&u8>::to_distribution(m) {
        Ok(d) => { assert!(N > 0, "C18 empty slice.to_distribution accepted"); check_choice(&d, N, rng, |r: &u8| by_identity(m, r)); }
        Err(_) => assert!(N == 0, "C18 non-empty slice rejected (to_distribution)"),
    }
    match ToDistribution::<u8>::to_distribution(m) {
        Ok(d) => { assert!(N > 0, "C18 empty slice.to_distribution (cloning) accepted"); check_choice(&d, N, rng, |v: u8| by_value::<N>(v)); }
        Err(_) => assert!(N == 0, "C18 non-empty slice rejected (to_distribution, cloning)"),
    }
}

pub fn macro_flavour(rng: &mut TapeRng<T>) {
    let d = uniform_distribution_of![10u8, 11u8, 12u8];
    check_choice(&d, 3, rng, |v: u8| by_value::<3>(v));
    let d1 = uniform_distribution_of![<u16> 10u8];
    check_choice(&d1, 1, rng, |v: u16| if v == 10 { Some(0) } else { None });
}

// ---- collection generators ----
pub struct WordGen;
impl Distribution<u64> for WordGen {
    fn sample<R: Rng + ?Sized>(&self, rng: &mut R) -> u64 {
        rng.next_u64()
    }
}

pub fn collection_sizes<const S: usize>(rng: &mut SymRng) {
    let v: Vec<u64> = Generator::new(WordGen, S).sample(rng);
    assert!(v.len() == S, "C18 collection generator: wrong number of elements");
    assert!(rng.draws() == S, "C18 collection generator: one element draw per element");
    let mut i = 0;
    while i < S {
        assert!(v[i] == rng.log[i], "C18 collection generator: elements are the element generator's outputs in order");
        i += 1;
    }
    std::mem::forget(v);
    // by-reference flavour
    let g = WordGen;
    let v2: Vec<u64> = g.to_collection_generator(S).sample(rng);
    assert!(v2.len() == S && rng.draws() == 2 * S, "C18 to_collection_generator: size");
    std::mem::forget(v2);
    // bitstrings have exactly the configured size
    let b = Bitstring::random(S, rng);
    assert!(b.bits.len() == S && rng.draws() == 3 * S, "C18 Bitstring::random: size / one draw per bit");
    std::mem::forget(b);
    // populations of scored individuals
    let pop: Vec<EcIndividual<u64, Score<i64>>> = WordGen.with_scorer_fn(|g: &u64| Score(*g as i64)).into_collection_generator(S).sample(rng);
    assert!(pop.len() == S && rng.draws() == 4 * S, "C18 population generator: size");
    std::mem::forget(pop);
}

#[cfg(kani)]
mod proofs {
    use super::*;

    macro_rules! flav { ($($aname:ident / $vname:ident / $sname:ident = <$n:literal>;)*) => {$(
        #[kani::proof]
        #[kani::unwind(7)]
        fn $aname() {
            let mut rng = TapeRng::<T>::any();
            let last = array_flavours::<$n>(&mut rng);
            crate::witness!($n == 0 || last == 0, "PROP uniform choice: first member can be returned");
            crate::witness!($n == 0 || last + 1 == $n, "PROP uniform choice: last member can be returned");
            crate::witness!($n < 3 || last == 1, "PROP uniform choice: middle member can be returned");
        }
        #[kani::proof]
        #[kani::unwind(7)]
        fn $vname() {
            let mut rng = TapeRng::<T>::any();
            vec_flavours::<$n>(&mut rng);
            crate::witness!(true, "WITNESS reached");
        }
        #[kani::proof]
        #[kani::unwind(7)]
        fn $sname() {
            let mut rng = TapeRng::<T>::any();
            slice_flavours::<$n>(&mut rng);
            crate::witness!(true, "WITNESS reached");
        }
    )*}; }
    flav! {
        c18_choice_array_0 / c18_choice_vec_0 / c18_choice_slice_0 = <0>;
        c18_choice_array_1 / c18_choice_vec_1 / c18_choice_slice_1 = <1>;
        c18_choice_array_2 / c18_choice_vec_2 / c18_choice_slice_2 = <2>;
        c18_choice_array_3 / c18_choice_vec_3 / c18_choice_slice_3 = <3>;
        c18_choice_array_4 / c18_choice_vec_4 / c18_choice_slice_4 = <4>;
    }
    #[kani::proof]
    #[kani::unwind(7)]
    fn c18_choice_macro() {
        let mut rng = TapeRng::<T>::any();
        macro_flavour(&mut rng);
        crate::witness!(true, "WITNESS reached");
    }

    macro_rules! sizes { ($($name:ident = <$n:literal>;)*) => {$(
        #[kani::proof]
        #[kani::unwind(7)]
        fn $name() {
            let mut rng = SymRng::new();
            collection_sizes::<$n>(&mut rng);
            crate::witness!(true, "WITNESS reached");
        }
    )*}; }
    sizes! { c18_sizes_0 = <0>; c18_sizes_1 = <1>; c18_sizes_2 = <2>; }
    #[cfg(feature = "thorough")]
    sizes! { c18_t_sizes_3 = <3>; c18_t_sizes_4 = <4>; }
}
