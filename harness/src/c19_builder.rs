//! C19 -- the generated state builder builds the configured state and rejects misuse (runtime
//! clauses; the compile-time clauses are decided by rustc's type checker, not by a solver).
use ordered_float::OrderedFloat;
use push::instruction::variable_name::VariableName;
use push::push_vm::program::PushProgram;
use push::push_vm::push_state::PushState;
use push::push_vm::stack::{HasStack, StackError};
use push::push_vm::State;

use crate::c01_exec::{id_of, sentinel};

pub fn fixed_random_state() -> std::hash::RandomState {
    unsafe { std::mem::transmute::<[u64; 2], std::hash::RandomState>([0x0123_4567_89ab_cdef, 0x0fed_cba9_8765_4321]) }
}

/// values: first supplied value on top, contents exact, per-stack maximum = the global one;
/// the accessors address the field declared for that element type
pub fn values_and_accessors<const NI: usize, const NB: usize>(iv: [i64; NI], bv: [bool; NB], fv: f64, max: usize, steps: usize) {
    let r = PushState::builder()
        .with_max_stack_size(max)
        .with_no_program()
        .with_int_values(iv.to_vec());
    let b = match r {
        Ok(b) => {
            assert!(NI <= max, "C19 more int values than the maximum accepted");
            b
        }
        Err(e) => {
            assert!(NI > max && matches!(e, StackError::Overflow { .. }), "C19 int values rejected although they fit / wrong error");
            return;
        }
    };
    let r = b.with_bool_values(bv.to_vec());
    let b = match r {
        Ok(b) => {
            assert!(NB <= max, "C19 more bool values than the maximum accepted");
            b
        }
        Err(e) => {
            assert!(NB > max && matches!(e, StackError::Overflow { .. }), "C19 bool values rejected although they fit / wrong error");
            return;
        }
    };
    let b = match b.with_float_values([OrderedFloat(fv)]) {
        Ok(b) => b,
        Err(_) => {
            assert!(max == 0, "C19 one float value rejected although it fits");
            return;
        }
    };
    let mut st = b.with_instruction_step_limit(steps).build();
    assert!(st.max_instruction_steps() == steps, "C19 step limit not stored");
    assert!(st.stack::<i64>().max_stack_size() == max && st.stack::<bool>().max_stack_size() == max
        && st.stack::<OrderedFloat<f64>>().max_stack_size() == max && st.stack::<PushProgram>().max_stack_size() == max,
        "C19 with_max_stack_size did not set every stack's maximum");
    assert!(st.stack::<i64>().size() == NI && st.stack::<bool>().size() == NB && st.stack::<OrderedFloat<f64>>().size() == 1
        && st.stack::<PushProgram>().size() == 0, "C19 accessor addresses the wrong field (sizes)");
    let mut k = 0;
    while k < NI {
        assert!(st.stack_mut::<i64>().pop().unwrap() == iv[k], "C19 int values: first supplied value must be on top, order preserved");
        k += 1;
    }
    let mut k = 0;
    while k < NB {
        assert!(st.stack_mut::<bool>().pop().unwrap() == bv[k], "C19 bool values: first supplied value must be on top, order preserved");
        k += 1;
    }
    let f = st.stack_mut::<OrderedFloat<f64>>().pop().unwrap().0;
    assert!(f.to_bits() == fv.to_bits() || (f.is_nan() && fv.is_nan()), "C19 float accessor / value");
    std::mem::forget(st);
}

/// values loaded in two batches: the second batch is counted together with what is already there
pub fn two_batches(a: [i64; 2], b: [i64; 2], max: usize) {
    let r = PushState::builder().with_max_stack_size(max).with_no_program().with_int_values(a.to_vec());
    let bld = match r {
        Ok(x) => x,
        Err(_) => {
            assert!(max < 2, "C19 first batch rejected although it fits");
            return;
        }
    };
    match bld.with_int_values(b.to_vec()) {
        Ok(x) => {
            assert!(max >= 4, "C19 a second batch of values was accepted although the stack then exceeds its maximum");
            let mut st = x.with_instruction_step_limit(1).build();
            assert!(st.stack::<i64>().size() == 4 && st.stack::<i64>().size() <= st.stack::<i64>().max_stack_size(), "C19 two batches: size");
            // the later batch sits on top, its first value topmost
            assert!(st.stack_mut::<i64>().pop().unwrap() == b[0] && st.stack_mut::<i64>().pop().unwrap() == b[1]
                && st.stack_mut::<i64>().pop().unwrap() == a[0] && st.stack_mut::<i64>().pop().unwrap() == a[1], "C19 two batches: order");
            std::mem::forget(st);
        }
        Err(e) => assert!(max < 4 && matches!(e, StackError::Overflow { .. }), "C19 second batch rejected although both fit / wrong error"),
    }
}

/// maximum last set wins, globally or individually, in both orders the type-state permits
pub fn max_sizes(g: usize, s: usize, order: bool) {
    let st = if order {
        PushState::builder().with_max_stack_size(g).with_int_max_size(s).with_no_program().with_instruction_step_limit(1).build()
    } else {
        PushState::builder().with_int_max_size(s).with_max_stack_size(g).with_no_program().with_instruction_step_limit(1).build()
    };
    let want_int = if order { s } else { g };
    assert!(st.stack::<i64>().max_stack_size() == want_int, "C19 int stack maximum is not the one last set");
    assert!(st.stack::<bool>().max_stack_size() == g && st.stack::<OrderedFloat<f64>>().max_stack_size() == g
        && st.stack::<PushProgram>().max_stack_size() == g, "C19 other stacks' maximum is not the global one");
    std::mem::forget(st);
}

/// the first element of the supplied program is the first to execute; too long a program is an overflow
pub fn program<const NP: usize>(max: usize) {
    let mut progs: Vec<PushProgram> = Vec::with_capacity(4);
    let mut k = 0;
    while k < NP {
        progs.push(sentinel(1 + k as u8));
        k += 1;
    }
    match PushState::builder().with_max_stack_size(max).with_program(progs) {
        Ok(b) => {
            assert!(NP <= max, "C19 a program longer than the exec maximum was accepted");
            let mut st = b.with_instruction_step_limit(5).build();
            assert!(st.stack::<PushProgram>().size() == NP, "C19 program length");
            let mut k = 0;
            while k < NP {
                let p = st.stack_mut::<PushProgram>().pop().unwrap();
                assert!(id_of(&p) == 1 + k as u8, "C19 the first supplied program element must be on top of the exec stack (first to execute)");
                std::mem::forget(p);
                k += 1;
            }
            std::mem::forget(st);
        }
        Err(e) => assert!(NP > max && matches!(e, StackError::Overflow { .. }), "C19 program rejected although it fits / wrong error"),
    }
}

/// named inputs resolve to their values regardless of the declaration order (also C16)
pub fn inputs(x: i64, y: i64, order: bool, which: bool) {
    let b = PushState::builder().with_max_stack_size(2).with_no_program();
    let b = if order { b.with_int_input("x", x).with_int_input("y", y) } else { b.with_int_input("y", y).with_int_input("x", x) };
    let st = b.with_instruction_step_limit(3).build();
    let name = VariableName::from(if which { "x" } else { "y" });
    let mut st = match st.with_input(&name) {
        Ok(s) => s,
        Err(_) => panic!("C19 bound input failed on an empty stack"),
    };
    assert!(st.stack::<i64>().size() == 1, "C19 input pushes exactly one value");
    assert!(st.stack_mut::<i64>().pop().unwrap() == if which { x } else { y }, "C19/C16 a named input resolves to another value depending on declaration order");
    std::mem::forget((st, name));
}

#[cfg(kani)]
mod proofs {
    use super::*;

    // lengths AND the maximum are per-harness constants (a symbolic maximum makes the builder's error
    // path feasible, and with it the drop glue of a whole PushState incl. its HashMap: > 240 s); the
    // values, the float and the step limit are symbolic
    macro_rules! vals { ($($name:ident = <$ni:literal, $nb:literal>, $max:expr;)*) => {$(
        #[kani::proof]
        #[kani::unwind(6)]
        #[kani::stub(std::hash::RandomState::new, crate::c19_builder::fixed_random_state)]
        fn $name() {
            values_and_accessors::<$ni, $nb>(kani::any(), kani::any(), kani::any(), $max, kani::any());
            crate::witness!(true, "WITNESS reached");
        }
    )*}; }
    vals! {
        c19_values_0_0_fit = <0, 0>, 1; c19_values_1_2_fit = <1, 2>, 2; c19_values_3_1_fit = <3, 1>, usize::MAX; c19_values_2_3_fit = <2, 3>, 3;
        c19_values_int_overflow = <3, 1>, 2; c19_values_bool_overflow = <1, 2>, 1; c19_values_float_overflow = <0, 0>, 0;
    }

    macro_rules! batches { ($($name:ident = $max:expr;)*) => {$(
        #[kani::proof]
        #[kani::unwind(6)]
        #[kani::stub(std::hash::RandomState::new, crate::c19_builder::fixed_random_state)]
        fn $name() {
            two_batches(kani::any(), kani::any(), $max);
            crate::witness!(true, "WITNESS reached");
        }
    )*}; }
    batches! { c19_two_batches_fit = 4; c19_two_batches_overflow = 3; }

    #[kani::proof]
    #[kani::unwind(6)]
    #[kani::stub(std::hash::RandomState::new, crate::c19_builder::fixed_random_state)]
    fn c19_max_sizes() {
        let order: bool = kani::any();
        max_sizes(kani::any(), kani::any(), order);
        crate::witness!(order, "WITNESS global then individual");
        crate::witness!(!order, "WITNESS individual then global");
    }

    macro_rules! progs { ($($name:ident = <$np:literal>, $max:expr;)*) => {$(
        #[kani::proof]
        #[kani::unwind(6)]
        #[kani::stub(std::hash::RandomState::new, crate::c19_builder::fixed_random_state)]
        fn $name() {
            program::<$np>($max);
            crate::witness!(true, "WITNESS reached");
        }
    )*}; }
    progs! { c19_program_0 = <0>, 0; c19_program_1_fit = <1>, 1; c19_program_3_fit = <3>, 5; c19_program_3_overflow = <3>, 2; c19_program_1_overflow = <1>, 0; }

    macro_rules! inps { ($($name:ident = ($order:literal, $which:literal);)*) => {$(
        #[kani::proof]
        #[kani::unwind(9)]
        #[kani::stub(std::hash::RandomState::new, crate::c19_builder::fixed_random_state)]
        fn $name() {
            inputs(kani::any(), kani::any(), $order, $which);
            crate::witness!(true, "WITNESS reached");
        }
    )*}; }
    // (named inputs in both declaration orders were measured and dropped: the input map is a std HashMap --
    // hashbrown + SipHash under CBMC -- and two inserts plus one lookup exceed 25 min; `inputs()` above is kept
    // for reference and is not compiled into any harness)

}
