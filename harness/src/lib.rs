//! Kani harness crate for /repo (unhindered-ec).  See /verif/DESIGN.md.
#![allow(clippy::all)]
#![allow(unused_imports, dead_code, unused_variables, unused_mut)]

/// Reachability witness / property cover.  Compiled out with feature `nocover` (used when asking
/// Kani for a concrete counterexample: a SATISFIED cover is a "failed property" for CBMC, and Kani's
/// concrete playback would otherwise hand back the trace of a cover instead of the violated assertion).
#[macro_export]
macro_rules! witness {
    ($cond:expr, $msg:literal) => {
        #[cfg(all(kani, not(feature = "nocover")))]
        kani::cover!($cond, $msg);
    };
}

pub mod symrng;

pub mod probes;

#[cfg(feature = "c04")]
pub mod c04_stack;
#[cfg(feature = "c06")]
pub mod c06_select;
#[cfg(feature = "c07")]
pub mod c07_pressure;
#[cfg(feature = "c10")]
pub mod c10_xo;
#[cfg(feature = "c13")]
pub mod c13_weighted;
#[cfg(feature = "c14")]
pub mod c14_compose;
#[cfg(feature = "c15")]
pub mod c15_order;
#[cfg(feature = "c17")]
pub mod c17_erased;
#[cfg(feature = "c18")]
pub mod c18_generators;
