//! Kani harness crate for /repo (unhindered-ec).  See /verif/DESIGN.md.
#![allow(clippy::all)]
#![allow(unused_imports, dead_code, unused_variables, unused_mut)]

/// Reachability witness / property cover.  Compiled out with feature `nocover` (used when asking
/// Kani for a concrete counterexample: a SATISFIED cover is a "failed property" for CBMC, and Kani's
/// concrete playback would otherwise hand back the trace of a cover instead of the violated assertion).
#[macro_export]
macro_rules! witness {
    ($cond:expr, $msg:literal) => {
        #[cfg(all(kani, not(feature = "nocover")))]
        kani::cover!($cond, $msg);
    };
}

/// assertion sets of the Push-VM harnesses, selected per property (C01 / C02 / C03).  In a build for
/// another property the C01 conditions are *assumed* instead (the states consistent with C01 are the
/// ones C02 / C03 are asked about; it also keeps the formulas as small as in the C01 build -- without
/// it the Swap harnesses need > 11 GB).  A build in which the assumption cuts every path is caught by
/// the reachability witness at the end of each harness.
#[macro_export]
macro_rules! a01 {
    ($c:expr, $m:literal) => {
        #[cfg(feature = "a01")]
        assert!($c, $m);
        #[cfg(all(kani, not(feature = "a01")))]
        kani::assume($c);
    };
}
#[macro_export]
macro_rules! a02 { ($c:expr, $m:literal) => { #[cfg(feature = "a02")] assert!($c, $m); }; }
#[macro_export]
macro_rules! a03 { ($c:expr, $m:literal) => { #[cfg(feature = "a03")] assert!($c, $m); }; }

pub mod symrng;

pub mod probes;

#[cfg(any(feature = "pushvm", feature = "c19"))]
pub mod push_ref;
#[cfg(feature = "pushvm")]
pub mod c01_step;
#[cfg(feature = "pushvm")]
pub mod c01_stepgen;
#[cfg(feature = "pushvm")]
pub mod c01_print;
#[cfg(any(feature = "pushvm", feature = "c19"))]
pub mod c01_exec;
#[cfg(feature = "c19")]
pub mod c19_builder;
#[cfg(all(feature = "pushvm", feature = "thorough"))]
pub mod c01_dispatch;
#[cfg(feature = "pushvm")]
pub mod c01_loop;
#[cfg(feature = "c04")]
pub mod c04_stack;
#[cfg(feature = "c06")]
pub mod c06_select;
#[cfg(feature = "c07")]
pub mod c07_pressure;
#[cfg(feature = "c10")]
pub mod c10_xo;
#[cfg(feature = "c11")]
pub mod c11_mutation;
#[cfg(feature = "c13")]
pub mod c13_weighted;
#[cfg(feature = "c14")]
pub mod c14_compose;
#[cfg(feature = "c15")]
pub mod c15_order;
#[cfg(feature = "c16")]
pub mod c16_determinism;
#[cfg(feature = "c17")]
pub mod c17_erased;
#[cfg(feature = "c18")]
pub mod c18_generators;

/// marker harnesses: let the driver tell apart builds of the same modules with different assertion sets
#[cfg(kani)]
pub mod marker {
    #[cfg(feature = "a01")]
    #[kani::proof]
    fn marker_a01() {}
    #[cfg(feature = "a02")]
    #[kani::proof]
    fn marker_a02() {}
    #[cfg(feature = "a03")]
    #[kani::proof]
    fn marker_a03() {}
}
