//! Probe operators / selectors / mutators / recombinators with ghost call logs.
//!
//! A probe logs (sequence number, its id, the input it saw, the random word it drew) into a
//! shared `Log`, and fails when the *global* call index equals `fail_at`.
use std::cell::RefCell;

use ec_core::operator::{
    composable::Composable, mutator::Mutator, recombinator::Recombinator, selector::Selector, Operator,
};
use rand::{Rng, RngCore};

pub const LOGN: usize = 12;

#[derive(Debug, Clone, Copy, PartialEq, Eq)]
pub struct Entry {
    pub id: u8,
    pub input: u64,
    pub word: u64,
}

#[derive(Debug)]
pub struct Log {
    pub n: usize,
    pub e: [Entry; LOGN],
    /// global call index at which the called probe fails (usize::MAX = never)
    pub fail_at: usize,
}

impl Log {
    pub fn new(fail_at: usize) -> RefCell<Log> {
        RefCell::new(Log { n: 0, e: [Entry { id: 0, input: 0, word: 0 }; LOGN], fail_at })
    }
    /// returns true if this call must fail
    pub fn record(&mut self, id: u8, input: u64, word: u64) -> bool {
        let k = self.n;
        if k < LOGN {
            self.e[k] = Entry { id, input, word };
        }
        self.n = k + 1;
        k == self.fail_at
    }
}

/// error of a probe: which probe failed
#[derive(Debug, Clone, Copy, PartialEq, Eq)]
pub struct PErr(pub u8);
impl std::fmt::Display for PErr {
    fn fmt(&self, f: &mut std::fmt::Formatter<'_>) -> std::fmt::Result {
        f.write_str("probe failed")
    }
}
impl std::error::Error for PErr {}

/// the value a probe computes from (id, input, word)
pub fn mix(id: u8, input: u64, word: u64) -> u64 {
    (input ^ word).wrapping_add(id as u64)
}

/// Probe operator u64 -> u64.
pub struct P<'a> {
    pub id: u8,
    pub log: &'a RefCell<Log>,
}
impl<'a> Composable for P<'a> {}
impl<'a> Operator<u64> for P<'a> {
    type Output = u64;
    type Error = PErr;
    fn apply<R: Rng + ?Sized>(&self, x: u64, rng: &mut R) -> Result<u64, PErr> {
        let w = rng.next_u64();
        if self.log.borrow_mut().record(self.id, x, w) {
            Err(PErr(self.id))
        } else {
            Ok(mix(self.id, x, w))
        }
    }
}

/// Probe operator on a pair (for use after `And`).
pub struct PPair<'a> {
    pub id: u8,
    pub log: &'a RefCell<Log>,
}
impl<'a> Composable for PPair<'a> {}
impl<'a> Operator<(u64, u64)> for PPair<'a> {
    type Output = u64;
    type Error = PErr;
    fn apply<R: Rng + ?Sized>(&self, x: (u64, u64), rng: &mut R) -> Result<u64, PErr> {
        let w = rng.next_u64();
        let inp = x.0.rotate_left(17) ^ x.1;
        if self.log.borrow_mut().record(self.id, inp, w) {
            Err(PErr(self.id))
        } else {
            Ok(mix(self.id, inp, w))
        }
    }
}

/// Probe mutator on u64 genomes.
pub struct PMut<'a> {
    pub id: u8,
    pub log: &'a RefCell<Log>,
}
impl<'a> Mutator<u64> for PMut<'a> {
    type Error = PErr;
    fn mutate<R: Rng + ?Sized>(&self, g: u64, rng: &mut R) -> Result<u64, PErr> {
        let w = rng.next_u64();
        if self.log.borrow_mut().record(self.id, g, w) {
            Err(PErr(self.id))
        } else {
            Ok(mix(self.id, g, w))
        }
    }
}

/// Probe recombinator on pairs of u64 genomes.
pub struct PRec<'a> {
    pub id: u8,
    pub log: &'a RefCell<Log>,
}
impl<'a> Recombinator<(u64, u64)> for PRec<'a> {
    type Output = u64;
    type Error = PErr;
    fn recombine<R: Rng + ?Sized>(&self, g: (u64, u64), rng: &mut R) -> Result<u64, PErr> {
        let w = rng.next_u64();
        let inp = g.0.rotate_left(17) ^ g.1;
        if self.log.borrow_mut().record(self.id, inp, w) {
            Err(PErr(self.id))
        } else {
            Ok(mix(self.id, inp, w))
        }
    }
}

/// Probe selector over arrays: picks index (word % N); logs; can fail.
pub struct PSel<'a> {
    pub id: u8,
    pub log: &'a RefCell<Log>,
}
impl<'a, T, const N: usize> Selector<[T; N]> for PSel<'a> {
    type Error = PErr;
    fn select<'pop, R: Rng + ?Sized>(&self, pop: &'pop [T; N], rng: &mut R) -> Result<&'pop T, PErr> {
        let w = rng.next_u64();
        if self.log.borrow_mut().record(self.id, N as u64, w) || N == 0 {
            Err(PErr(self.id))
        } else {
            Ok(&pop[(w % (N as u64)) as usize])
        }
    }
}

/// Marker selector: always returns the element at a fixed index, draws nothing, logs its id.
pub struct Marker<'a> {
    pub id: u8,
    pub idx: usize,
    pub log: &'a RefCell<Log>,
}
impl<'a, T, const N: usize> Selector<[T; N]> for Marker<'a> {
    type Error = PErr;
    fn select<'pop, R: Rng + ?Sized>(&self, pop: &'pop [T; N], _rng: &mut R) -> Result<&'pop T, PErr> {
        self.log.borrow_mut().record(self.id, self.idx as u64, 0);
        if self.idx < N { Ok(&pop[self.idx]) } else { Err(PErr(self.id)) }
    }
}
