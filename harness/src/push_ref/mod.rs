//! Reference semantics of one Push instruction step over fixed-size array models, and the harness
//! state type `VState` (three real `Stack`s + an output buffer) the real instruction impls are
//! instantiated with.  The instruction impls are generic over `S: HasStack<..> + HasStdout`, so the
//! same source runs for `PushState`; what is specific to `PushState` is checked by the DISPATCH
//! harnesses.
use ordered_float::OrderedFloat;
use push::error::Error as PErrorT;
use push::instruction::instruction_error::PushInstructionError;
use push::instruction::IntInstructionError;
use push::push_vm::push_io::HasStdout;
use push::push_vm::stack::{HasStack, Stack, StackError, TypeEq};

pub const CAP: usize = 5;
pub const OUTN: usize = 24;

/// array model of one stack, bottom first
#[derive(Clone, Copy, PartialEq, Debug)]
pub struct Stk<T: Copy> {
    pub v: [T; CAP],
    pub n: usize,
    pub max: usize,
}
impl<T: Copy> Stk<T> {
    pub fn top(&self, k: usize) -> T {
        self.v[self.n - 1 - k]
    }
    pub fn full(&self) -> bool {
        self.n >= self.max
    }
    pub fn push(&mut self, x: T) {
        self.v[self.n] = x;
        self.n += 1;
    }
    pub fn drop_n(&mut self, k: usize) {
        self.n -= k;
    }
}

#[derive(Clone, Copy, PartialEq, Debug)]
pub struct Model {
    pub i: Stk<i64>,
    pub f: Stk<f64>,
    pub b: Stk<bool>,
    pub out: [u8; OUTN],
    pub nout: usize,
}

#[derive(Clone)]
pub struct VState {
    pub int: Stack<i64>,
    pub float: Stack<OrderedFloat<f64>>,
    pub boolean: Stack<bool>,
    pub out: Vec<u8>,
}
impl HasStack<i64> for VState {
    fn stack<U: TypeEq<This = i64>>(&self) -> &Stack<i64> {
        &self.int
    }
    fn stack_mut<U: TypeEq<This = i64>>(&mut self) -> &mut Stack<i64> {
        &mut self.int
    }
}
impl HasStack<OrderedFloat<f64>> for VState {
    fn stack<U: TypeEq<This = OrderedFloat<f64>>>(&self) -> &Stack<OrderedFloat<f64>> {
        &self.float
    }
    fn stack_mut<U: TypeEq<This = OrderedFloat<f64>>>(&mut self) -> &mut Stack<OrderedFloat<f64>> {
        &mut self.float
    }
}
impl HasStack<bool> for VState {
    fn stack<U: TypeEq<This = bool>>(&self) -> &Stack<bool> {
        &self.boolean
    }
    fn stack_mut<U: TypeEq<This = bool>>(&mut self) -> &mut Stack<bool> {
        &mut self.boolean
    }
}
impl HasStdout for VState {
    type Stdout = Vec<u8>;
    fn stdout(&mut self) -> &mut Vec<u8> {
        &mut self.out
    }
}

pub fn build_stack<T: Copy, U>(m: &Stk<T>, conv: impl Fn(T) -> U) -> Stack<U> {
    let mut s: Stack<U> = Stack::default();
    let mut k = 0;
    while k < m.n {
        s.push(conv(m.v[k])).unwrap();
        k += 1;
    }
    s.set_max_stack_size(m.max);
    s
}

impl Model {
    pub fn build(&self) -> VState {
        let mut out = Vec::with_capacity(OUTN);
        let mut k = 0;
        while k < self.nout {
            out.push(self.out[k]);
            k += 1;
        }
        VState {
            int: build_stack(&self.i, |x| x),
            float: build_stack(&self.f, OrderedFloat),
            boolean: build_stack(&self.b, |x| x),
            out,
        }
    }
}

pub fn same_f64(a: f64, b: f64) -> bool {
    (a.is_nan() && b.is_nan()) || a.to_bits() == b.to_bits()
}

/// destructive comparison of a real stack with its model (size, max, every element by pop)
pub fn stack_is<T: Copy, U>(s: &mut Stack<U>, m: &Stk<T>, eq: impl Fn(&U, T) -> bool) -> bool {
    if s.size() != m.n || s.max_stack_size() != m.max {
        return false;
    }
    let mut ok = true;
    let mut k = m.n;
    while k > 0 {
        k -= 1;
        match s.pop() {
            Ok(x) => {
                if !eq(&x, m.v[k]) {
                    ok = false;
                }
            }
            Err(_) => return false,
        }
    }
    ok && s.is_empty()
}

/// which components of a VState differ from the model (bit mask: 1 int, 2 float, 4 bool, 8 stdout)
pub fn diff(st: &mut VState, m: &Model) -> u8 {
    let mut d = 0;
    if !stack_is(&mut st.int, &m.i, |x, y| *x == y) {
        d |= 1;
    }
    if !stack_is(&mut st.float, &m.f, |x, y| same_f64(x.0, y)) {
        d |= 2;
    }
    if !stack_is(&mut st.boolean, &m.b, |x, y| *x == y) {
        d |= 4;
    }
    if st.out.len() != m.nout {
        d |= 8;
    } else {
        let mut k = 0;
        while k < m.nout {
            if st.out[k] != m.out[k] {
                d |= 8;
            }
            k += 1;
        }
    }
    d
}

/// the instructions of the three value families, by meaning (the REF side of a STEP harness)
#[derive(Clone, Copy, PartialEq, Debug)]
pub enum Op {
    // generic per stack (T = the family's own stack)
    IPop, IPush(i64), IDup, ISwap, IIsEmpty, IDepth, IFlush,
    FPop, FPush(f64), FDup, FSwap, FIsEmpty, FDepth, FFlush,
    BPop, BPush(bool), BDup, BSwap, BIsEmpty, BDepth, BFlush,
    // int
    Negate, Abs, Min, Max, Clamp, Inc, Dec, Add, Sub, Mul, Div, Mod, Pow, Square,
    IsZero, IsPos, IsNeg, IsEven, IsOdd, IEq, INe, ILt, ILe, IGt, IGe, FromBool, FromFloat,
    // float
    FAdd, FSub, FMul, FDiv, FEq, FNe, FGt, FLt, FGe, FLe, FromInt,
    // bool
    Not, Or, And, Xor, Implies, BFromInt,
}

#[derive(Clone, Copy, PartialEq, Debug)]
pub enum Fault {
    Underflow { req: usize, present: usize },
    IntOverflow,
    Overflow,
}

#[derive(Clone, Copy, PartialEq, Debug)]
pub struct Expected {
    /// None = Ok; Some(f) = error f (Underflow / IntOverflow recoverable, Overflow fatal)
    pub fault: Option<Fault>,
    /// when operands are missing AND the destination is full, either fault is acceptable
    pub alt: Option<Fault>,
    /// state afterwards (== pre on every error)
    pub post: Model,
}

fn ok(post: Model) -> Expected {
    Expected { fault: None, alt: None, post }
}
fn err(pre: &Model, f: Fault) -> Expected {
    Expected { fault: Some(f), alt: None, post: *pre }
}
fn err2(pre: &Model, f: Fault, g: Fault) -> Expected {
    Expected { fault: Some(f), alt: Some(g), post: *pre }
}
fn under(req: usize, present: usize) -> Fault {
    Fault::Underflow { req, present }
}

// OrderedFloat's documented total order: NaN is greatest and equal to itself; -0.0 == 0.0
pub fn of_ge(x: f64, y: f64) -> bool {
    x.is_nan() || x >= y
}
pub fn of_eq(x: f64, y: f64) -> bool {
    (x.is_nan() && y.is_nan()) || x == y
}

macro_rules! unary_same {
    ($pre:expr, $stk:ident, $f:expr) => {{
        let mut p = *$pre;
        if p.$stk.n < 1 {
            return err($pre, under(1, 0));
        }
        let x = p.$stk.top(0);
        p.$stk.drop_n(1);
        p.$stk.push($f(x));
        ok(p)
    }};
}
macro_rules! binary_same {
    ($pre:expr, $stk:ident, $f:expr) => {{
        let mut p = *$pre;
        if p.$stk.n < 2 {
            return err($pre, under(2, p.$stk.n));
        }
        let (x, y) = (p.$stk.top(0), p.$stk.top(1));
        p.$stk.drop_n(2);
        p.$stk.push($f(x, y));
        ok(p)
    }};
}
macro_rules! checked_unary {
    ($pre:expr, $f:expr) => {{
        let mut p = *$pre;
        if p.i.n < 1 {
            return err($pre, under(1, 0));
        }
        let x = p.i.top(0);
        match $f(x) {
            Some(r) => {
                p.i.drop_n(1);
                p.i.push(r);
                ok(p)
            }
            None => err($pre, Fault::IntOverflow),
        }
    }};
}
macro_rules! checked_binary {
    ($pre:expr, $f:expr) => {{
        let mut p = *$pre;
        if p.i.n < 2 {
            return err($pre, under(2, p.i.n));
        }
        let (x, y): (i64, i64) = (p.i.top(0), p.i.top(1));
        match $f(x, y) {
            Some(r) => {
                p.i.drop_n(2);
                p.i.push(r);
                ok(p)
            }
            None => err($pre, Fault::IntOverflow),
        }
    }};
}
/// consume `k` operands from `src`, push f(..) onto a different stack `dst`
macro_rules! convert {
    ($pre:expr, $src:ident, $k:expr, $dst:ident, $f:expr) => {{
        let mut p = *$pre;
        let missing = p.$src.n < $k;
        let full = p.$dst.full();
        if missing && full {
            return err2($pre, under($k, if $k == 1 { 0 } else { p.$src.n }), Fault::Overflow);
        }
        if missing {
            return err($pre, under($k, if $k == 1 { 0 } else { p.$src.n }));
        }
        if full {
            return err($pre, Fault::Overflow);
        }
        let r = $f(&p.$src);
        p.$src.drop_n($k);
        p.$dst.push(r);
        ok(p)
    }};
}
macro_rules! generic_ops {
    ($pre:expr, $stk:ident, $op:expr, $pop:pat, $push:pat => $v:ident, $dup:pat, $swap:pat, $isempty:pat, $depth:pat, $flush:pat) => {
        match $op {
            $pop => {
                let mut p = *$pre;
                if p.$stk.n < 1 {
                    return Some(err($pre, under(1, 0)));
                }
                p.$stk.drop_n(1);
                return Some(ok(p));
            }
            $push => {
                let mut p = *$pre;
                if p.$stk.full() {
                    return Some(err($pre, Fault::Overflow));
                }
                p.$stk.push($v);
                return Some(ok(p));
            }
            $dup => {
                let mut p = *$pre;
                if p.$stk.n < 1 {
                    // (an empty stack with maximum 0 is also full: underflow is what top() reports first)
                    return Some(if p.$stk.full() { err2($pre, under(1, 0), Fault::Overflow) } else { err($pre, under(1, 0)) });
                }
                if p.$stk.full() {
                    return Some(err($pre, Fault::Overflow));
                }
                let x = p.$stk.top(0);
                p.$stk.push(x);
                return Some(ok(p));
            }
            $swap => {
                let mut p = *$pre;
                if p.$stk.n < 2 {
                    return Some(err($pre, under(2, p.$stk.n)));
                }
                let (x, y) = (p.$stk.top(0), p.$stk.top(1));
                p.$stk.drop_n(2);
                p.$stk.push(x);
                p.$stk.push(y);
                return Some(ok(p));
            }
            $isempty => {
                let mut p = *$pre;
                if p.b.full() {
                    return Some(err($pre, Fault::Overflow));
                }
                let e = $pre.$stk.n == 0;
                p.b.push(e);
                return Some(ok(p));
            }
            $depth => {
                let mut p = *$pre;
                if p.i.full() {
                    return Some(err($pre, Fault::Overflow));
                }
                let d = $pre.$stk.n as i64;
                p.i.push(d);
                return Some(ok(p));
            }
            $flush => {
                let mut p = *$pre;
                p.$stk.n = 0;
                return Some(ok(p));
            }
            _ => {}
        }
    };
}

fn generic(pre: &Model, op: Op) -> Option<Expected> {
    generic_ops!(pre, i, op, Op::IPop, Op::IPush(v) => v, Op::IDup, Op::ISwap, Op::IIsEmpty, Op::IDepth, Op::IFlush);
    generic_ops!(pre, f, op, Op::FPop, Op::FPush(v) => v, Op::FDup, Op::FSwap, Op::FIsEmpty, Op::FDepth, Op::FFlush);
    generic_ops!(pre, b, op, Op::BPop, Op::BPush(v) => v, Op::BDup, Op::BSwap, Op::BIsEmpty, Op::BDepth, Op::BFlush);
    None
}

/// REF::step -- what the instruction semantics prescribe (C01), including the error class and
/// "state untouched on every error" (C02).  Pre-states satisfy n <= max on every stack.
pub fn step(pre: &Model, op: Op) -> Expected {
    if let Some(e) = generic(pre, op) {
        return e;
    }
    match op {
        // ---- int arithmetic: top-op-second, overflow skips, negate/abs saturate
        Op::Negate => unary_same!(pre, i, |x: i64| x.saturating_neg()),
        Op::Abs => unary_same!(pre, i, |x: i64| x.saturating_abs()),
        Op::Min => binary_same!(pre, i, |x: i64, y: i64| if x < y { x } else { y }),
        Op::Max => binary_same!(pre, i, |x: i64, y: i64| if x > y { x } else { y }),
        Op::Clamp => {
            let mut p = *pre;
            if p.i.n < 3 {
                return err(pre, under(3, p.i.n));
            }
            let (v, a, b) = (p.i.top(0), p.i.top(1), p.i.top(2));
            let (lo, hi) = if a > b { (b, a) } else { (a, b) };
            let r = if v < lo { lo } else if v > hi { hi } else { v };
            p.i.drop_n(3);
            p.i.push(r);
            ok(p)
        }
        Op::Inc => checked_unary!(pre, |x: i64| x.checked_add(1)),
        Op::Dec => checked_unary!(pre, |x: i64| x.checked_sub(1)),
        Op::Square => checked_unary!(pre, |x: i64| x.checked_mul(x)),
        Op::Add => checked_binary!(pre, |x: i64, y: i64| x.checked_add(y)),
        Op::Sub => checked_binary!(pre, |x: i64, y: i64| x.checked_sub(y)),
        Op::Mul => checked_binary!(pre, |x: i64, y: i64| x.checked_mul(y)),
        Op::Div => checked_binary!(pre, |x: i64, y: i64| if y == 0 { Some(1) } else { x.checked_div(y) }),
        Op::Mod => checked_binary!(pre, |x: i64, y: i64| if y == 0 { Some(0) } else { x.checked_rem(y) }),
        Op::Pow => checked_binary!(pre, |x: i64, y: i64| if y < 0 || y > u32::MAX as i64 { None } else { x.checked_pow(y as u32) }),
        // ---- int predicates: answer mathematically, consume ALL operands
        Op::IsZero => convert!(pre, i, 1, b, |s: &Stk<i64>| s.top(0) == 0),
        Op::IsPos => convert!(pre, i, 1, b, |s: &Stk<i64>| s.top(0) > 0),
        Op::IsNeg => convert!(pre, i, 1, b, |s: &Stk<i64>| s.top(0) < 0),
        Op::IsEven => convert!(pre, i, 1, b, |s: &Stk<i64>| s.top(0).rem_euclid(2) == 0),
        Op::IsOdd => convert!(pre, i, 1, b, |s: &Stk<i64>| s.top(0).rem_euclid(2) == 1),
        Op::IEq => convert!(pre, i, 2, b, |s: &Stk<i64>| s.top(0) == s.top(1)),
        Op::INe => convert!(pre, i, 2, b, |s: &Stk<i64>| s.top(0) != s.top(1)),
        Op::ILt => convert!(pre, i, 2, b, |s: &Stk<i64>| s.top(0) < s.top(1)),
        Op::ILe => convert!(pre, i, 2, b, |s: &Stk<i64>| s.top(0) <= s.top(1)),
        Op::IGt => convert!(pre, i, 2, b, |s: &Stk<i64>| s.top(0) > s.top(1)),
        Op::IGe => convert!(pre, i, 2, b, |s: &Stk<i64>| s.top(0) >= s.top(1)),
        Op::FromBool => convert!(pre, b, 1, i, |s: &Stk<bool>| if s.top(0) { 1i64 } else { 0i64 }),
        Op::FromFloat => convert!(pre, f, 1, i, |s: &Stk<f64>| s.top(0) as i64),
        // ---- float
        Op::FAdd => binary_same!(pre, f, |x: f64, y: f64| x + y),
        Op::FSub => binary_same!(pre, f, |x: f64, y: f64| x - y),
        Op::FMul => binary_same!(pre, f, |x: f64, y: f64| x * y),
        Op::FDiv => binary_same!(pre, f, |x: f64, y: f64| if y == 0.0 { 1.0 } else { x / y }),
        Op::FEq => convert!(pre, f, 2, b, |s: &Stk<f64>| of_eq(s.top(0), s.top(1))),
        Op::FNe => convert!(pre, f, 2, b, |s: &Stk<f64>| !of_eq(s.top(0), s.top(1))),
        Op::FGt => convert!(pre, f, 2, b, |s: &Stk<f64>| !of_ge(s.top(1), s.top(0))),
        Op::FLt => convert!(pre, f, 2, b, |s: &Stk<f64>| !of_ge(s.top(0), s.top(1))),
        Op::FGe => convert!(pre, f, 2, b, |s: &Stk<f64>| of_ge(s.top(0), s.top(1))),
        Op::FLe => convert!(pre, f, 2, b, |s: &Stk<f64>| of_ge(s.top(1), s.top(0))),
        Op::FromInt => convert!(pre, i, 1, f, |s: &Stk<i64>| s.top(0) as f64),
        // ---- bool
        Op::Not => unary_same!(pre, b, |x: bool| !x),
        Op::Or => binary_same!(pre, b, |x: bool, y: bool| x || y),
        Op::And => binary_same!(pre, b, |x: bool, y: bool| x && y),
        Op::Xor => binary_same!(pre, b, |x: bool, y: bool| x != y),
        Op::Implies => binary_same!(pre, b, |x: bool, y: bool| !x || y),
        Op::BFromInt => convert!(pre, i, 1, b, |s: &Stk<i64>| s.top(0) != 0),
        _ => unreachable!(),
    }
}

/// classification of a real error
pub fn classify<S>(e: &PErrorT<S, PushInstructionError>) -> (bool, Option<Fault>) {
    let fatal = e.is_fatal();
    let f = match e.error() {
        PushInstructionError::StackError(StackError::Underflow { num_requested, num_present }) => {
            Some(Fault::Underflow { req: *num_requested, present: *num_present })
        }
        PushInstructionError::StackError(StackError::Overflow { .. }) => Some(Fault::Overflow),
        PushInstructionError::Int(IntInstructionError::Overflow { .. }) => Some(Fault::IntOverflow),
        _ => None,
    };
    (fatal, f)
}
