//! Symbolic random number generators.
//!
//! `SymRng`: every call returns a fresh nondeterministic word (under Kani) and counts the
//! number of 32/64-bit draws.  A property asserted with it holds for every random stream.
//!
//! `TapeRng<T>`: a fixed tape of `T` words (symbolic under Kani) followed by a constant tail word; `Clone`
//! gives two runs the same stream; `cursor` exposes how much of the stream was consumed.
//!
//! Natively (replays, reference tests) both are driven by explicit word lists.
use rand::RngCore;

#[derive(Debug)]
pub struct SymRng {
    pub draws32: usize,
    pub draws64: usize,
    /// words handed out so far (ghost log, bounded)
    pub log: [u64; 8],
    pub nlog: usize,
    #[cfg(not(kani))]
    pub script: Vec<u64>,
}

impl SymRng {
    #[cfg(kani)]
    pub fn new() -> Self {
        SymRng { draws32: 0, draws64: 0, log: [0; 8], nlog: 0 }
    }
    #[cfg(not(kani))]
    pub fn new() -> Self {
        SymRng { draws32: 0, draws64: 0, log: [0; 8], nlog: 0, script: Vec::new() }
    }
    #[cfg(not(kani))]
    pub fn scripted(words: &[u64]) -> Self {
        let mut s = Self::new();
        s.script = words.to_vec();
        s
    }
    fn word(&mut self) -> u64 {
        #[cfg(kani)]
        let w: u64 = kani::any();
        #[cfg(not(kani))]
        let w: u64 = {
            let i = self.draws32 + self.draws64;
            self.script.get(i).copied().unwrap_or(0)
        };
        if self.nlog < 8 {
            self.log[self.nlog] = w;
            self.nlog += 1;
        }
        w
    }
    pub fn draws(&self) -> usize {
        self.draws32 + self.draws64
    }
}

impl RngCore for SymRng {
    fn next_u32(&mut self) -> u32 {
        let w = self.word() as u32;
        // keep the logged value equal to what was handed out
        if self.nlog > 0 && self.nlog <= 8 {
            self.log[self.nlog - 1] = w as u64;
        }
        self.draws32 += 1;
        w
    }
    fn next_u64(&mut self) -> u64 {
        let w = self.word();
        self.draws64 += 1;
        w
    }
    fn fill_bytes(&mut self, dst: &mut [u8]) {
        // not used by the code under verification; deterministic fill from fresh words
        let mut i = 0;
        while i < dst.len() {
            let w = self.next_u64().to_le_bytes();
            let mut j = 0;
            while j < 8 && i < dst.len() {
                dst[i] = w[j];
                i += 1;
                j += 1;
            }
        }
    }
}

#[derive(Debug, Clone, PartialEq, Eq)]
pub struct TapeRng<const T: usize> {
    pub tape: [u64; T],
    pub cursor: usize,
    /// word returned once the tape is exhausted.  rand's uniform-integer rejection loop accepts
    /// `lo = (w * range) mod 2^k >= thresh`: an all-ones word is always accepted (a zero word is
    /// rejected whenever the range is not a power of two), so loops over a TapeRng with an
    /// all-ones tail end within T+1 iterations.
    pub tail: u64,
    /// how the stream was consumed: calls of next_u32 / next_u64 / fill_bytes and bytes filled.
    /// "Equal generator states" includes these, so an adapter that re-implements fill_bytes with
    /// next_u64 (instead of forwarding it) is visible.
    pub calls32: usize,
    pub calls64: usize,
    pub calls_fill: usize,
    pub bytes_filled: usize,
}

impl<const T: usize> TapeRng<T> {
    #[cfg(kani)]
    pub fn any() -> Self {
        TapeRng { tape: kani::any(), cursor: 0, tail: u64::MAX, calls32: 0, calls64: 0, calls_fill: 0, bytes_filled: 0 }
    }
    /// equal generator states (the tape itself is immutable; comparing it would be a memcmp loop)
    pub fn same_state(&self, o: &Self) -> bool {
        self.cursor == o.cursor
            && self.calls32 == o.calls32
            && self.calls64 == o.calls64
            && self.calls_fill == o.calls_fill
            && self.bytes_filled == o.bytes_filled
    }
    pub fn from_words(tape: [u64; T]) -> Self {
        TapeRng { tape, cursor: 0, tail: u64::MAX, calls32: 0, calls64: 0, calls_fill: 0, bytes_filled: 0 }
    }
    fn word(&mut self) -> u64 {
        let w = if self.cursor < T { self.tape[self.cursor] } else { self.tail };
        self.cursor += 1;
        w
    }
}

impl<const T: usize> RngCore for TapeRng<T> {
    fn next_u32(&mut self) -> u32 {
        self.calls32 += 1;
        self.word() as u32
    }
    fn next_u64(&mut self) -> u64 {
        self.calls64 += 1;
        self.word()
    }
    fn fill_bytes(&mut self, dst: &mut [u8]) {
        // one tape word per (started) 4 bytes: a consumption pattern of its own, like a block generator
        self.calls_fill += 1;
        self.bytes_filled += dst.len();
        let mut i = 0;
        while i < dst.len() {
            let w = (self.word() as u32).to_le_bytes();
            let mut j = 0;
            while j < 4 && i < dst.len() {
                dst[i] = w[j];
                i += 1;
                j += 1;
            }
        }
    }
}
