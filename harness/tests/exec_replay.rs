//! Native replay of a counterexample of bin/mirexec (STEP lemma for the exec-stack instructions on the MIR): the real
//! `ExecInstruction::perform` is run on a builder-made `PushState` with EXEC_NE distinct programs on the exec stack,
//! EXEC_NB booleans (EXEC_CONDS, bottom first), EXEC_NI integers and the per-stack maxima EXEC_MAXS; the outcome is
//! compared with the documented action tables.  Prints REPLAY-VIOLATION and fails when the real code deviates.
#![cfg(feature = "looprep")]
use push::error::into_state::IntoState;
use push::instruction::{ExecInstruction, Instruction, IntInstruction, PushInstruction};
use push::push_vm::program::PushProgram;
use push::push_vm::push_state::PushState;
use push::push_vm::HasStack;

fn prog(k: i64) -> PushProgram {
    PushProgram::Instruction(PushInstruction::IntInstruction(IntInstruction::push(k)))
}
fn mk_push(p: PushProgram) -> ExecInstruction {
    let mut e = ExecInstruction::Push(Default::default());
    if let ExecInstruction::Push(b) = &mut e {
        b.0 = p;
    }
    e
}
fn drain<T: Clone>(s: &mut push::push_vm::stack::Stack<T>) -> Vec<T> {
    let mut v = Vec::new();
    while let Ok(x) = s.pop() {
        v.push(x);
    }
    v.reverse();
    v // bottom first
}

#[derive(Debug, PartialEq, Clone)]
enum Kind {
    Ok,
    Underflow,
    Overflow,
}

#[test]
fn exec_replay() {
    let var = |k: &str| std::env::var(k).unwrap_or_default();
    let instr_name = var("EXEC_INSTR");
    if instr_name.is_empty() {
        return;
    }
    let ne: usize = var("EXEC_NE").parse().unwrap();
    let ni: usize = var("EXEC_NI").parse().unwrap();
    let conds: Vec<bool> = var("EXEC_CONDS").split(',').filter(|s| !s.is_empty()).map(|s| s == "1").collect();
    let maxs: Vec<usize> = var("EXEC_MAXS").split(',').map(|s| s.parse::<u128>().map(|x| x.min(1 << 40) as usize).unwrap_or(1 << 40)).collect();
    let e: Vec<PushProgram> = (0..ne as i64).map(prog).collect(); // bottom first
    let i: Vec<i64> = (0..ni as i64).map(|k| 500 + k).collect();
    // builder: first supplied value becomes the top
    let mut state = PushState::builder()
        .with_max_stack_size(64)
        .with_program(e.iter().rev().cloned().collect::<Vec<_>>())
        .unwrap()
        .with_bool_values(conds.iter().rev().copied().collect::<Vec<_>>())
        .unwrap()
        .with_int_values(i.iter().rev().copied().collect::<Vec<_>>())
        .unwrap()
        .with_instruction_step_limit(10)
        .build();
    HasStack::<PushProgram>::stack_mut::<PushProgram>(&mut state).set_max_stack_size(maxs[0]);
    HasStack::<bool>::stack_mut::<bool>(&mut state).set_max_stack_size(maxs[1]);
    HasStack::<i64>::stack_mut::<i64>(&mut state).set_max_stack_size(maxs[2]);
    let (e_full, b_full, i_full) = (ne >= maxs[0], conds.len() >= maxs[1], ni >= maxs[2]);
    let instr = match instr_name.as_str() {
        "Pop" => ExecInstruction::Pop(Default::default()),
        "Push" => mk_push(prog(99)),
        "Dup" => ExecInstruction::Dup(Default::default()),
        "Swap" => ExecInstruction::Swap(Default::default()),
        "IsEmpty" => ExecInstruction::IsEmpty(Default::default()),
        "StackDepth" => ExecInstruction::StackDepth(Default::default()),
        "Flush" => ExecInstruction::Flush(Default::default()),
        "Noop" => ExecInstruction::noop(),
        "DupBlock" => ExecInstruction::dup_block(),
        "When" => ExecInstruction::when(),
        "Unless" => ExecInstruction::unless(),
        "IfElse" => ExecInstruction::if_else(),
        other => panic!("unknown instruction {other}"),
    };
    // reference: the documented action tables
    let b = conds.clone();
    let same = (e.clone(), b.clone(), i.clone());
    let cond0 = b.last().copied().unwrap_or(false);
    let cut = |v: &Vec<PushProgram>, n: usize| v[..v.len() - n].to_vec();
    let mut wants: Vec<(Kind, Vec<PushProgram>, Vec<bool>, Vec<i64>)> = Vec::new();
    let mut want = |k: Kind, t: (Vec<PushProgram>, Vec<bool>, Vec<i64>)| wants.push((k, t.0, t.1, t.2));
    match instr_name.as_str() {
        "Noop" => want(Kind::Ok, same.clone()),
        "Pop" => {
            if e.is_empty() { want(Kind::Underflow, same.clone()) } else { want(Kind::Ok, (cut(&e, 1), b.clone(), i.clone())) }
        }
        "Push" => {
            if e_full { want(Kind::Overflow, same.clone()) } else {
                let mut x = e.clone();
                x.push(prog(99));
                want(Kind::Ok, (x, b.clone(), i.clone()))
            }
        }
        "Dup" | "DupBlock" => {
            if e.is_empty() {
                want(Kind::Underflow, same.clone());
                if e_full { want(Kind::Overflow, same.clone()) }
            } else if e_full { want(Kind::Overflow, same.clone()) } else {
                let mut x = e.clone();
                x.push(e[e.len() - 1].clone());
                want(Kind::Ok, (x, b.clone(), i.clone()))
            }
        }
        "Swap" => {
            if e.len() < 2 { want(Kind::Underflow, same.clone()) } else {
                let mut x = cut(&e, 2);
                x.push(e[e.len() - 1].clone());
                x.push(e[e.len() - 2].clone());
                want(Kind::Ok, (x, b.clone(), i.clone()))
            }
        }
        "IsEmpty" => {
            if b_full { want(Kind::Overflow, same.clone()) } else {
                let mut x = b.clone();
                x.push(e.is_empty());
                want(Kind::Ok, (e.clone(), x, i.clone()))
            }
        }
        "StackDepth" => {
            if i_full { want(Kind::Overflow, same.clone()) } else {
                let mut x = i.clone();
                x.push(e.len() as i64);
                want(Kind::Ok, (e.clone(), b.clone(), x))
            }
        }
        "Flush" => want(Kind::Ok, (Vec::new(), b.clone(), i.clone())),
        "When" | "Unless" => {
            let keep = if instr_name == "When" { cond0 } else { !cond0 };
            let bcut = if b.is_empty() { b.clone() } else { b[..b.len() - 1].to_vec() };
            if !b.is_empty() && !e.is_empty() {
                want(Kind::Ok, (if keep { e.clone() } else { cut(&e, 1) }, bcut, i.clone()))
            } else if !e.is_empty() {
                want(Kind::Ok, (if instr_name == "When" { cut(&e, 1) } else { e.clone() }, b.clone(), i.clone()))
            } else if !b.is_empty() {
                want(Kind::Ok, same.clone())
            } else {
                want(Kind::Underflow, same.clone())
            }
        }
        "IfElse" => {
            if e.is_empty() {
                want(Kind::Underflow, same.clone())
            } else if b.is_empty() {
                want(Kind::Ok, (cut(&e, 1), b.clone(), i.clone()))
            } else {
                let bcut = b[..b.len() - 1].to_vec();
                if cond0 {
                    let x = if e.len() >= 2 {
                        let mut x = cut(&e, 2);
                        x.push(e[e.len() - 1].clone());
                        x
                    } else {
                        e.clone()
                    };
                    want(Kind::Ok, (x, bcut, i.clone()))
                } else {
                    want(Kind::Ok, (cut(&e, 1), bcut, i.clone()))
                }
            }
        }
        _ => unreachable!(),
    }
    let res = std::panic::catch_unwind(std::panic::AssertUnwindSafe(|| instr.perform(state)));
    let (kind, fatal, mut s) = match res {
        Err(_) => {
            println!("REPLAY-VIOLATION: {instr_name} panics");
            panic!("the instruction panics");
        }
        Ok(Ok(s)) => (Kind::Ok, false, s),
        Ok(Err(err)) => {
            let fatal = err.is_fatal();
            let text = format!("{:?}", err.error());
            let kind = if text.contains("Overflow") { Kind::Overflow } else { Kind::Underflow };
            (kind, fatal, err.into_state())
        }
    };
    let got_maxs = [
        HasStack::<PushProgram>::stack::<PushProgram>(&s).max_stack_size(),
        HasStack::<bool>::stack::<bool>(&s).max_stack_size(),
        HasStack::<i64>::stack::<i64>(&s).max_stack_size(),
    ];
    let ge = drain(HasStack::<PushProgram>::stack_mut::<PushProgram>(&mut s));
    let gb = drain(HasStack::<bool>::stack_mut::<bool>(&mut s));
    let gi = drain(HasStack::<i64>::stack_mut::<i64>(&mut s));
    let ok_class = kind == Kind::Ok || (fatal == (kind == Kind::Overflow));
    let ok_sizes = ge.len() <= maxs[0] && gb.len() <= maxs[1] && gi.len() <= maxs[2];
    let matches = wants.iter().any(|(k, we, wb, wi)| *k == kind && *we == ge && *wb == gb && *wi == gi);
    if !(matches && ok_class && ok_sizes && got_maxs[..] == maxs[..]) {
        println!(
            "REPLAY-VIOLATION: {instr_name} on exec depth {ne}, conditions {conds:?}, {ni} ints, maxima {maxs:?}: outcome {kind:?} (fatal {fatal}), exec {ge:?}, bool {gb:?}, int {gi:?}, maxima {got_maxs:?}; documented: {wants:?}"
        );
        panic!("the real instruction deviates from its documented action table");
    }
}
