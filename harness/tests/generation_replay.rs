//! Native replay of a counterexample of bin/mirgen (C09): a population of GEN_N members and a counting child
//! maker that fails at the calls listed in GEN_FAIL are run through the real `Generation::serial_next` or
//! `Generation::par_next` (GEN_WHICH), 200 times.  The test fails if a step breaks one of the guarantees:
//! Ok iff no call failed; on Ok exactly n children of this step, all distinct, replace the population; on Err the
//! population is untouched and the error is one a call produced; every call is shown the previous population;
//! the children of one step are not correlated copies of one random draw.
#![cfg(feature = "looprep")]
use ec_core::generation::Generation;
use ec_core::operator::{Composable, Operator};
use rand::Rng;
use std::sync::atomic::{AtomicUsize, Ordering};
use std::sync::{Arc, Mutex};

#[derive(Default)]
struct Obs {
    calls: AtomicUsize,
    shown: Mutex<Vec<Vec<u64>>>,
}
struct Maker {
    obs: Arc<Obs>,
    fail_at: Vec<usize>,
}
impl Composable for Maker {}
impl<'a> Operator<&'a Vec<u64>> for Maker {
    type Output = u64;
    type Error = usize;
    fn apply<R: Rng + ?Sized>(&self, input: &'a Vec<u64>, rng: &mut R) -> Result<u64, usize> {
        let k = self.obs.calls.fetch_add(1, Ordering::SeqCst);
        self.obs.shown.lock().unwrap().push(input.clone());
        let word: u64 = rng.random();
        if self.fail_at.contains(&k) {
            Err(k)
        } else {
            Ok(word | 1 << 63) // children are recognisable: top bit set, the rest is the word drawn
        }
    }
}

#[test]
fn generation_replay() {
    let n: usize = std::env::var("GEN_N").ok().and_then(|s| s.parse().ok()).unwrap_or(0);
    let fail_at: Vec<usize> = std::env::var("GEN_FAIL").unwrap_or_default().split(',').filter(|s| !s.is_empty()).map(|x| x.parse().unwrap()).collect();
    let threads: usize = std::env::var("GEN_THREADS").ok().and_then(|s| s.parse().ok()).unwrap_or(0);
    let par = std::env::var("GEN_WHICH").map(|s| s == "par_next").unwrap_or(false);
    let old: Vec<u64> = (0..n as u64).collect();
    let mut bad: Vec<String> = Vec::new();
    for rep in 0..200 {
        let obs = Arc::new(Obs::default());
        let mut g = Generation::new(Maker { obs: obs.clone(), fail_at: fail_at.clone() }, old.clone());
        let r = if par && threads > 0 {
            // a pool of the size chosen by the solver (the code under test may ask rayon for its pool size)
            rayon::ThreadPoolBuilder::new().num_threads(threads).build().unwrap().install(|| g.par_next())
        } else if par {
            g.par_next()
        } else {
            g.serial_next()
        };
        let after = g.population().clone();
        let calls = obs.calls.load(Ordering::SeqCst);
        let shown = obs.shown.lock().unwrap().clone();
        let failed_calls: Vec<usize> = fail_at.iter().copied().filter(|&k| k < calls).collect();
        for s in &shown {
            if *s != old {
                bad.push(format!("rep {rep}: a child-maker call was shown {s:?} instead of the previous population"));
            }
        }
        match r {
            Ok(()) => {
                if !failed_calls.is_empty() {
                    bad.push(format!("rep {rep}: Ok although the calls {failed_calls:?} failed"));
                }
                if after.len() != n {
                    bad.push(format!("rep {rep}: the new population has {} members, the previous one had {n}", after.len()));
                }
                if after.iter().any(|c| c >> 63 == 0) {
                    bad.push(format!("rep {rep}: the new population contains a member that is not a child of this step"));
                }
                if calls != n {
                    bad.push(format!("rep {rep}: {calls} child-maker calls for a population of {n}"));
                }
                let mut d = after.clone();
                d.sort();
                d.dedup();
                if d.len() != after.len() {
                    bad.push(format!("rep {rep}: two children of one step are the same random draw: {after:?}"));
                }
            }
            Err(e) => {
                if !failed_calls.contains(&e) {
                    bad.push(format!("rep {rep}: Err({e}) is not the error of a failed call ({failed_calls:?})"));
                }
                if after != old {
                    bad.push(format!("rep {rep}: an error was returned but the population changed to {after:?}"));
                }
            }
        }
        if bad.len() > 6 {
            break;
        }
    }
    println!("n {n} failing calls {fail_at:?} {}: {} deviations", if par { "par_next" } else { "serial_next" }, bad.len());
    for b in bad.iter().take(6) {
        println!("  {b}");
    }
    assert!(bad.is_empty(), "a generation step deviates");
}
