//! Native replay of a counterexample of bin/mirinput (C16 / C19): the declared input names, their types
//! and the queried name chosen by z3 are bound through the real generated builder and looked up with the
//! real `PushState::with_input`, 64 times per declaration order (every `PushState` gets a fresh
//! `RandomState`, so the hash-map iteration order varies between repetitions).  The test fails if any
//! repetition resolves the query to something else than the value bound to exactly that name, or if a
//! query that names no declared input does not panic.
#![cfg(feature = "looprep")]
use ordered_float::OrderedFloat;
use push::instruction::variable_name::VariableName;
use push::push_vm::push_state::PushState;
use push::push_vm::stack::HasStack;
use std::panic::{catch_unwind, AssertUnwindSafe};

#[derive(Debug, PartialEq, Clone)]
enum Got {
    Int(i64),
    Bool(bool),
    Float(OrderedFloat<f64>),
    Nothing,
    Panic,
}

fn lookup(names: &[&str], types: &[&str], order: &[usize], query: &str) -> Got {
    let mut b = PushState::builder().with_max_stack_size(4).with_no_program();
    for &i in order {
        b = match types[i] {
            "bool" => b.with_bool_input(names[i], i % 2 == 0),
            "float" => b.with_float_input(names[i], OrderedFloat(i as f64 + 0.5)),
            _ => b.with_int_input(names[i], 100 + i as i64),
        };
    }
    let st = b.with_instruction_step_limit(3).build();
    let name = VariableName::from(query);
    let r = catch_unwind(AssertUnwindSafe(move || st.with_input(&name)));
    match r {
        Err(_) => Got::Panic,
        Ok(Err(_)) => Got::Nothing,
        Ok(Ok(mut s)) => {
            if let Ok(v) = s.stack_mut::<i64>().pop() {
                Got::Int(v)
            } else if let Ok(v) = s.stack_mut::<bool>().pop() {
                Got::Bool(v)
            } else if let Ok(v) = s.stack_mut::<OrderedFloat<f64>>().pop() {
                Got::Float(v)
            } else {
                Got::Nothing
            }
        }
    }
}

/// N5: the state handed back by `with_input` -- with the result (INPUT_OUTCOME=Ok) or with the error of a failed push
/// (INPUT_OUTCOME=Err: the destination stack is full) -- still resolves every declared input.
fn inputs_kept(names: &[&str], types: &[&str], query: &str, fail: bool) -> Result<(), String> {
    // maximum 1 per stack; for the failing case the queried input's stack already holds one value
    let qi = names.iter().position(|n| *n == query).ok_or("query not declared")?;
    macro_rules! bind_all {
        ($b:expr) => {{
            let mut b = $b;
            for i in 0..names.len() {
                b = match types[i] {
                    "bool" => b.with_bool_input(names[i], i % 2 == 0),
                    "float" => b.with_float_input(names[i], OrderedFloat(i as f64 + 0.5)),
                    _ => b.with_int_input(names[i], 100 + i as i64),
                };
            }
            b.with_instruction_step_limit(3).build()
        }};
    }
    let _ = qi;
    let st = if fail {
        // every stack is full (maximum 1, one value each): the push of the input's value must fail
        bind_all!(PushState::builder()
            .with_max_stack_size(1)
            .with_no_program()
            .with_bool_values([true])
            .map_err(|e| format!("{e:?}"))?
            .with_float_values([OrderedFloat(1.0)])
            .map_err(|e| format!("{e:?}"))?
            .with_int_values([1])
            .map_err(|e| format!("{e:?}"))?)
    } else {
        bind_all!(PushState::builder().with_max_stack_size(1).with_no_program())
    };
    let before = st.clone();
    let name = VariableName::from(query);
    let back = match st.with_input(&name) {
        Ok(s) => {
            if fail {
                return Err("the push onto a full stack succeeded".into());
            }
            s
        }
        Err(e) => {
            if !fail {
                return Err("the push failed although the stack had room".into());
            }
            let s = push::error::into_state::IntoState::into_state(e);
            if s != before {
                return Err(format!("REPLAY-VIOLATION: the state carried by the error differs from the state before the input instruction: {s:?} vs {before:?}"));
            }
            s
        }
    };
    // every declared input still resolves in the state handed back
    for n in names {
        let nm = VariableName::from(*n);
        let s2 = back.clone();
        let r = catch_unwind(AssertUnwindSafe(move || {
            let _ = s2.with_input(&nm);
        }));
        if r.is_err() {
            return Err(format!("REPLAY-VIOLATION: input {n:?} is no longer defined in the state handed back by with_input({query:?})"));
        }
    }
    Ok(())
}

#[test]
fn input_replay() {
    if let Ok(outcome) = std::env::var("INPUT_OUTCOME") {
        let names_s = std::env::var("INPUT_NAMES").unwrap_or_default();
        let types_s = std::env::var("INPUT_TYPES").unwrap_or_default();
        let query = std::env::var("INPUT_QUERY").unwrap_or_default();
        let names: Vec<&str> = names_s.split(',').filter(|s| !s.is_empty()).collect();
        let types: Vec<&str> = types_s.split(',').filter(|s| !s.is_empty()).collect();
        std::panic::set_hook(Box::new(|_| {}));
        let r = inputs_kept(&names, &types, &query, outcome == "Err");
        let _ = std::panic::take_hook();
        println!("inputs kept after with_input({query:?}) with outcome {outcome}: {r:?}");
        assert!(r.is_ok(), "{r:?}");
        return;
    }
    let names_s = std::env::var("INPUT_NAMES").unwrap_or_default();
    let types_s = std::env::var("INPUT_TYPES").unwrap_or_default();
    let query = std::env::var("INPUT_QUERY").unwrap_or_default();
    let names: Vec<&str> = names_s.split(',').filter(|s| !s.is_empty()).collect();
    let types: Vec<&str> = types_s.split(',').filter(|s| !s.is_empty()).collect();
    assert_eq!(names.len(), types.len());
    let want = match names.iter().position(|n| *n == query) {
        None => Got::Panic,
        Some(i) => match types[i] {
            "bool" => Got::Bool(i % 2 == 0),
            "float" => Got::Float(OrderedFloat(i as f64 + 0.5)),
            _ => Got::Int(100 + i as i64),
        },
    };
    std::panic::set_hook(Box::new(|_| {}));
    let fwd: Vec<usize> = (0..names.len()).collect();
    let rev: Vec<usize> = (0..names.len()).rev().collect();
    let mut bad = Vec::new();
    for rep in 0..64 {
        for order in [&fwd, &rev] {
            let got = lookup(&names, &types, order, &query);
            if got != want {
                bad.push(format!("repetition {rep} declaration order {order:?}: got {got:?}, want {want:?}"));
            }
        }
    }
    let _ = std::panic::take_hook();
    println!("names {names:?} types {types:?} query {query:?}: want {want:?}; {} deviating lookups of 128", bad.len());
    for b in bad.iter().take(4) {
        println!("  {b}");
    }
    assert!(bad.is_empty(), "a named input resolved to something else than its own binding");
}
