//! Native replay of a counterexample of bin/mirlex (C08): the result matrix chosen by z3 is turned
//! into a real population; the real `Lexicase` selector is run with many seeds; every returned
//! individual must survive best-per-case filtering for at least one case order and must not be
//! Pareto-dominated.  The test fails if the real selector returns anything else.
#![cfg(feature = "looprep")]
use ec_core::individual::ec::EcIndividual;
use ec_core::individual::Individual;
use ec_core::operator::selector::lexicase::Lexicase;
use ec_core::operator::selector::Selector;
use ec_core::test_results::{Error, Score, TestResults};
use rand::rngs::StdRng;
use rand::SeedableRng;

fn permutations(m: usize) -> Vec<Vec<usize>> {
    fn go(cur: &mut Vec<usize>, used: &mut Vec<bool>, m: usize, out: &mut Vec<Vec<usize>>) {
        if cur.len() == m {
            out.push(cur.clone());
            return;
        }
        for i in 0..m {
            if !used[i] {
                used[i] = true;
                cur.push(i);
                go(cur, used, m, out);
                cur.pop();
                used[i] = false;
            }
        }
    }
    let mut out = Vec::new();
    go(&mut Vec::new(), &mut vec![false; m], m, &mut out);
    out
}

fn survivors(r: &[Vec<i64>], sigma: &[usize], reverse: bool) -> Vec<usize> {
    let mut cand: Vec<usize> = (0..r.len()).collect();
    for &c in sigma {
        let best = if reverse { cand.iter().map(|&i| r[i][c]).min() } else { cand.iter().map(|&i| r[i][c]).max() };
        if let Some(b) = best {
            cand.retain(|&i| r[i][c] == b);
        }
    }
    cand
}

#[test]
fn lexicase_replay() {
    let spec = std::env::var("LEX_RESULTS").unwrap_or_default();
    let reverse = std::env::var("LEX_REVERSE").map(|s| s == "1").unwrap_or(false);
    let r: Vec<Vec<i64>> = spec.split(';').filter(|s| !s.is_empty()).map(|row| row.split(',').filter(|s| !s.is_empty()).map(|x| x.parse().unwrap()).collect()).collect();
    if r.is_empty() {
        // an empty population: the documented EmptyPopulation error, no panic, whatever the number of cases
        let cases: usize = std::env::var("LEX_CASES").ok().and_then(|s| s.parse().ok()).unwrap_or(0);
        let pop: Vec<EcIndividual<usize, TestResults<Score<i64>>>> = Vec::new();
        let mut rng = StdRng::seed_from_u64(0);
        assert!(Lexicase::new(cases).select(&pop, &mut rng).is_err(), "lexicase on an empty population must report an error");
        return;
    }
    // LEX_SHORT=<m>: the selector is configured with MORE cases (m) than the individuals hold results (X9): every outcome must be
    // explained by some case order -- Err(MissingTestCase{m, idx}) iff the first case without results in that order is idx and at
    // least two candidates survive the cases before it; Ok(w) iff w is the single survivor before it (or no such case is reached)
    if let Some(mcfg) = std::env::var("LEX_SHORT").ok().and_then(|s| s.parse::<usize>().ok()) {
        use ec_core::operator::selector::lexicase::LexicaseError;
        let cols = r[0].len();
        let pop: Vec<EcIndividual<usize, TestResults<Score<i64>>>> = r.iter().enumerate().map(|(i, row)| EcIndividual::new(i, row.iter().copied().into())).collect();
        let perms = permutations(mcfg);
        for seed in 0..2000u64 {
            let mut rng = StdRng::seed_from_u64(seed);
            let got = std::panic::catch_unwind(std::panic::AssertUnwindSafe(|| Lexicase::new(mcfg).select(&pop, &mut rng).map(|i| *i.genome())));
            let explained = match &got {
                Err(_) => false,
                Ok(Ok(w)) => perms.iter().any(|sg| {
                    let k = sg.iter().position(|c| *c >= cols).unwrap_or(sg.len());
                    let sv = survivors(&r, &sg[..k], false);
                    (k == sg.len() || sv.len() == 1) && sv.contains(w)
                }),
                Ok(Err(LexicaseError::MissingTestCase { total_cases, current_index })) => perms.iter().any(|sg| {
                    let k = sg.iter().position(|c| *c >= cols);
                    *total_cases == mcfg && k.map_or(false, |k| sg[k] == *current_index && survivors(&r, &sg[..k], false).len() >= 2)
                }),
                Ok(Err(_)) => false,
            };
            assert!(explained, "REPLAY-VIOLATION lexicase configured with {mcfg} cases on individuals holding {cols} results: outcome {got:?} is explained by no case order; results {r:?}, seed {seed}");
        }
        return;
    }
    // LEX_CONFIGURED: the selector is configured with fewer cases than the individuals hold results (only the first m count)
    let m = std::env::var("LEX_CONFIGURED").ok().and_then(|s| s.parse::<usize>().ok()).unwrap_or(r[0].len()).min(r[0].len());
    let allowed: Vec<usize> = {
        let mut a: Vec<usize> = permutations(m).iter().flat_map(|s| survivors(&r, s, reverse)).collect();
        a.sort();
        a.dedup();
        a
    };
    if std::env::var("LEX_TWICE").map(|s| s == "1").unwrap_or(false) {
        // hidden state: the SECOND call on one operator value must equal the second call of a fresh operator value when
        // both histories start from equal generator states
        let pop: Vec<EcIndividual<usize, TestResults<Score<i64>>>> = r.iter().enumerate().map(|(i, row)| EcIndividual::new(i, row.iter().copied().into())).collect();
        let mut differ = 0;
        for seed in 0..400u64 {
            let op = Lexicase::new(m);
            let mut ra = StdRng::seed_from_u64(seed);
            let _ = op.select(&pop, &mut ra).unwrap();
            let a2 = *op.select(&pop, &mut ra).unwrap().genome();
            let mut rb = StdRng::seed_from_u64(seed);
            let _ = Lexicase::new(m).select(&pop, &mut rb).unwrap();
            let b2 = *Lexicase::new(m).select(&pop, &mut rb).unwrap().genome();
            if a2 != b2 {
                differ += 1;
            }
        }
        println!("second call on a reused operator differs from a fresh operator in {differ} of 400 seeded histories");
        assert!(differ == 0, "lexicase keeps state between calls: {differ} of 400 seeded histories differ");
        return;
    }
    let law: Vec<f64> = std::env::var("LEX_LAW").unwrap_or_default().split(',').filter(|s| !s.is_empty()).map(|x| x.parse().unwrap()).collect();
    if law.len() == r.len() && !reverse {
        // the law of the winner: frequencies over 60000 seeded runs against the prescribed probabilities (tolerance 0.012)
        let pop: Vec<EcIndividual<usize, TestResults<Score<i64>>>> = r.iter().enumerate().map(|(i, row)| EcIndividual::new(i, row.iter().copied().into())).collect();
        let runs = 60000u64;
        let mut hist = vec![0u64; r.len()];
        for seed in 0..runs {
            let mut rng = StdRng::seed_from_u64(seed);
            hist[*Lexicase::new(m).select(&pop, &mut rng).unwrap().genome()] += 1;
        }
        let freq: Vec<f64> = hist.iter().map(|h| *h as f64 / runs as f64).collect();
        println!("selection frequencies {freq:?}, prescribed {law:?}");
        for i in 0..r.len() {
            assert!((freq[i] - law[i]).abs() <= 0.012, "individual {i}: selected with frequency {:.4}, prescribed {:.4}", freq[i], law[i]);
        }
        return;
    }
    let mut seen: Vec<usize> = Vec::new();
    for seed in 0..3000u64 {
        let mut rng = StdRng::seed_from_u64(seed);
        let w = if reverse {
            let pop: Vec<EcIndividual<usize, TestResults<Error<i64>>>> = r.iter().enumerate().map(|(i, row)| EcIndividual::new(i, row.iter().copied().into())).collect();
            *Lexicase::new(m).select(&pop, &mut rng).unwrap().genome()
        } else {
            let pop: Vec<EcIndividual<usize, TestResults<Score<i64>>>> = r.iter().enumerate().map(|(i, row)| EcIndividual::new(i, row.iter().copied().into())).collect();
            *Lexicase::new(m).select(&pop, &mut rng).unwrap().genome()
        };
        assert!(allowed.contains(&w), "lexicase returned individual {w}, which survives no case order; results {r:?} (errors: {reverse}), seed {seed}");
        if !seen.contains(&w) {
            seen.push(w);
        }
    }
    // every individual that survives some case order has selection probability >= 1/(m! * n): over 3000
    // seeds each of them must have been returned at least once
    for i in &allowed {
        assert!(seen.contains(i), "individual {i} survives a case order but was never returned in 3000 seeded runs; results {r:?} (errors: {reverse})");
    }
}
