//! Native replay of a counterexample of the LOOP lemma (bin/mirloop): a real program whose i-th
//! instruction succeeds ('O'), fails recoverably ('R') or fatally ('F') is run by the real interpreter
//! with the given step limit; the test fails if the run deviates from "perform the first
//! min(limit, n) instructions front to back, skip recoverable failures, stop at a fatal one".
#![cfg(feature = "looprep")]
use push::instruction::{BoolInstruction, ExecInstruction, IntInstruction, PushInstruction};
use push::push_vm::program::PushProgram;
use push::push_vm::push_state::PushState;
use push::push_vm::{HasStack, State};

#[test]
fn loop_replay() {
    let verdicts = std::env::var("LOOP_VERDICTS").unwrap_or_default();
    let limit: usize = std::env::var("LOOP_LIMIT").ok().and_then(|s| s.parse().ok()).unwrap_or(0);
    // pad the program so that it is longer than the verdict pattern (more work is always available)
    let mut pattern: Vec<char> = verdicts.chars().collect();
    while pattern.len() < limit + 2 {
        pattern.push('O');
    }
    let program: Vec<PushProgram> = pattern
        .iter()
        .map(|c| match c {
            'O' => PushProgram::Instruction(IntInstruction::push(7).into()),
            'R' => PushProgram::Instruction(BoolInstruction::Not.into()), // bool stack stays empty: recoverable underflow
            _ => PushProgram::Block((0..64).map(|_| PushProgram::Instruction(PushInstruction::Exec(ExecInstruction::noop()))).collect()), // does not fit: fatal overflow
        })
        .collect();
    let n = program.len();
    let state = PushState::builder().with_max_stack_size(32).with_program(program).unwrap().with_instruction_step_limit(limit).build();
    // reference
    let mut executed = 0;
    let mut ints = 0;
    let mut fatal = false;
    while executed < n && executed < limit {
        let c = pattern[executed];
        executed += 1;
        match c {
            'O' => ints += 1,
            'R' => {}
            _ => {
                fatal = true;
                break;
            }
        }
    }
    match state.run_to_completion() {
        Ok(s) => {
            assert!(!fatal, "a fatal error did not end the run");
            assert_eq!(s.stack::<PushProgram>().size(), n - executed, "number of instructions performed (limit {limit}, pattern {pattern:?})");
            assert_eq!(s.stack::<i64>().size(), ints, "successful instructions performed");
        }
        Err(_) => assert!(fatal, "the run ended with an error although no instruction failed fatally"),
    }
}
