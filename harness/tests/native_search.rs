//! Native confirmation of UNSATISFIABLE "this outcome can occur" covers: a grid of scripted random
//! streams is run against the real code; the test fails if an outcome the property requires never
//! occurs.  (The verdict is the solver's; this is the replay that shows it on the real build.)
use uec_verif::symrng::SymRng;

#[cfg(feature = "c07")]
mod c07 {
    use super::*;
    use uec_verif::c07_pressure::*;

    fn masks<const N: usize, const K: usize>() -> Vec<u32> {
        let g: Vec<u64> = (0..16u64).map(|k| (k << 28) | (k << 60)).chain([0xFFFF_FFFF_FFFF_FFFF]).collect();
        let mut seen = Vec::new();
        for &a in &g {
            for &b in &g {
                for &c in &g {
                    let mut rng = SymRng::scripted(&[a, b, c, a ^ b, b ^ c, c]);
                    let vals = [0u8; N];
                    let (_, m) = run_tournament::<N, K, _>(vals, &mut rng);
                    if !seen.contains(&m) {
                        seen.push(m);
                    }
                }
            }
        }
        seen
    }
    fn all_subsets<const N: usize, const K: usize>() {
        let seen = masks::<N, K>();
        for m in 0u32..(1 << N) {
            if m.count_ones() as usize == K {
                assert!(seen.contains(&m), "tournament k={K} over n={N} never samples subset {m:#b}; seen {seen:?}");
            }
        }
    }
    #[test]
    fn tournament_subsets_reachable() {
        all_subsets::<2, 1>();
        all_subsets::<3, 1>();
        all_subsets::<3, 2>();
        all_subsets::<4, 2>();
        all_subsets::<4, 3>();
    }
}

#[cfg(feature = "c10")]
mod c10 {
use super::*;
use uec_verif::c10_xo::*;

fn grid() -> Vec<u64> {
    let mut g: Vec<u64> = (0..64u64).map(|k| k << 26).collect();
    g.push(0xFFFF_FFFF);
    g
}

fn segments<const L: usize>(f: fn(&mut SymRng) -> [bool; L]) -> Vec<(usize, usize)> {
    let mut seen = Vec::new();
    for &a in &grid() {
        for &b in &grid() {
            for &c in &[0u64, 0xFFFF_FFFF] {
                let mut rng = SymRng::scripted(&[a, b, c, c]);
                let o = f(&mut rng);
                let s = segment_of(&o);
                if !seen.contains(&s) {
                    seen.push(s);
                }
            }
        }
    }
    seen
}

fn all_segments_seen<const L: usize>(seen: &[(usize, usize)]) {
    assert!(seen.contains(&(0, 0)), "empty segment never occurs for L={L}");
    for i in 0..L {
        for j in (i + 1)..=L {
            assert!(seen.contains(&(i, j)), "two-point crossover never exchanges segment [{i},{j}) for L={L}: seen {seen:?}");
        }
    }
}

#[test]
fn two_point_segments_reachable() {
    all_segments_seen::<1>(&segments::<1>(two_point_vec_arr::<1>));
    all_segments_seen::<2>(&segments::<2>(two_point_vec_arr::<2>));
    all_segments_seen::<3>(&segments::<3>(two_point_vec_arr::<3>));
    all_segments_seen::<4>(&segments::<4>(two_point_vec_arr::<4>));
    all_segments_seen::<1>(&segments::<1>(two_point_bits_arr::<1>));
    all_segments_seen::<2>(&segments::<2>(two_point_bits_arr::<2>));
    all_segments_seen::<3>(&segments::<3>(two_point_bits_arr::<3>));
    all_segments_seen::<4>(&segments::<4>(two_point_bits_arr::<4>));
    all_segments_seen::<3>(&segments::<3>(two_point_vec_tuple::<3>));
    all_segments_seen::<2>(&segments::<2>(two_point_bits_tuple::<2>));
}
}
