//! Native replay of a counterexample of bin/mirparse (C05): the gene kinds chosen by z3 are turned
//! into a real Plushy genome, converted by the real `Vec::<PushProgram>::from`, and compared with an
//! iterative reference parser.  The test fails if the real translation deviates.
#![cfg(feature = "looprep")]
use push::genome::plushy::{Plushy, PushGene};
use push::instruction::{ExecInstruction, IntInstruction, PushInstruction};
use push::push_vm::program::PushProgram;

fn gene(name: &str, idx: usize) -> (PushGene, usize) {
    let lit = |i: usize| PushInstruction::IntInstruction(IntInstruction::push(i as i64));
    match name {
        "Close" => (PushGene::Close, 0),
        "Exec::DupBlock" => (PushGene::Instruction(ExecInstruction::dup_block().into()), 1),
        "Exec::When" => (PushGene::Instruction(ExecInstruction::when().into()), 1),
        "Exec::Unless" => (PushGene::Instruction(ExecInstruction::unless().into()), 1),
        "Exec::IfElse" => (PushGene::Instruction(ExecInstruction::if_else().into()), 2),
        "Exec::Noop" => (PushGene::Instruction(ExecInstruction::noop().into()), 0),
        _ => (PushGene::Instruction(lit(idx)), 0),
    }
}

fn tokens(p: &[PushProgram], out: &mut Vec<String>) {
    for x in p {
        match x {
            PushProgram::Instruction(i) => out.push(format!("I({i})")),
            PushProgram::Block(b) => {
                out.push("[".into());
                tokens(b, out);
                out.push("]".into());
            }
        }
    }
}

#[test]
fn parse_replay() {
    let spec = std::env::var("PARSE_GENES").unwrap_or_default();
    let names: Vec<&str> = spec.split(',').filter(|s| !s.is_empty()).collect();
    let mut genes = Vec::new();
    let mut want: Vec<String> = Vec::new();
    let mut stack: Vec<usize> = Vec::new();
    for (i, n) in names.iter().enumerate() {
        let (g, opens) = gene(n, i);
        match &g {
            PushGene::Close => {
                if let Some(rem) = stack.pop() {
                    want.push("]".into());
                    if rem > 0 {
                        want.push("[".into());
                        stack.push(rem - 1);
                    }
                }
            }
            PushGene::Instruction(instr) => {
                want.push(format!("I({instr})"));
                if opens > 0 {
                    want.push("[".into());
                    stack.push(opens - 1);
                }
            }
        }
        genes.push(g);
    }
    while let Some(rem) = stack.pop() {
        want.push("]".into());
        if rem > 0 {
            want.push("[".into());
            stack.push(rem - 1);
        }
    }
    let program: Vec<PushProgram> = Plushy::new(genes).into();
    let mut got = Vec::new();
    tokens(&program, &mut got);
    assert_eq!(got, want, "genome {names:?}");
}
