//! Native replay of a counterexample of bin/mirtour (C07): the order values and identities chosen by z3
//! become a real population (ordering by value only, equality by identity), the real `Tournament` selector
//! is run with 20000 seeds.  The test fails if a selection panics, errs although K <= N (or succeeds
//! although K > N), returns a winner that is not at least as good as K-1 other members, or if the
//! empirical distribution of the winner's value is further than 0.03 from that of the best of a uniformly
//! random K-subset.
#![cfg(feature = "looprep")]
use ec_core::operator::selector::tournament::Tournament;
use ec_core::operator::selector::Selector;
use rand::rngs::StdRng;
use rand::SeedableRng;
use std::cmp::Ordering;
use std::num::NonZeroUsize;
use std::panic::{catch_unwind, AssertUnwindSafe};

#[derive(Debug, Clone)]
struct Ind {
    val: i64,
    id: i64,
}
impl PartialEq for Ind {
    fn eq(&self, o: &Self) -> bool {
        self.id == o.id
    }
}
impl Eq for Ind {}
impl PartialOrd for Ind {
    fn partial_cmp(&self, o: &Self) -> Option<Ordering> {
        Some(self.cmp(o))
    }
}
impl Ord for Ind {
    fn cmp(&self, o: &Self) -> Ordering {
        self.val.cmp(&o.val)
    }
}

fn comb(n: usize, k: usize) -> f64 {
    if k > n {
        return 0.0;
    }
    let mut r = 1.0;
    for i in 0..k {
        r = r * (n - i) as f64 / (i + 1) as f64;
    }
    r
}

#[test]
fn tournament_replay() {
    let vals: Vec<i64> = std::env::var("TOUR_VALUES").unwrap_or_default().split(',').filter(|s| !s.is_empty()).map(|x| x.parse().unwrap()).collect();
    let ids: Vec<i64> = std::env::var("TOUR_IDS").unwrap_or_default().split(',').filter(|s| !s.is_empty()).map(|x| x.parse().unwrap()).collect();
    let k: usize = std::env::var("TOUR_K").ok().and_then(|s| s.parse().ok()).unwrap_or(1);
    let n = vals.len();
    let pop: Vec<Ind> = vals.iter().enumerate().map(|(i, &v)| Ind { val: v, id: ids.get(i).copied().unwrap_or(i as i64) }).collect();
    let sel = Tournament::new(NonZeroUsize::new(k).unwrap());
    std::panic::set_hook(Box::new(|_| {}));
    let mut bad: Vec<String> = Vec::new();
    let mut hist: Vec<usize> = vec![0; n];
    let runs = 20000u64;
    for seed in 0..runs {
        let mut rng = StdRng::seed_from_u64(seed);
        let r = catch_unwind(AssertUnwindSafe(|| sel.select(&pop, &mut rng).map(|w| (w as *const Ind as usize - pop.as_ptr() as usize) / std::mem::size_of::<Ind>())));
        match r {
            Err(_) => bad.push(format!("seed {seed}: select panicked")),
            Ok(Err(_)) if k <= n => bad.push(format!("seed {seed}: error although K <= N")),
            Ok(Ok(_)) if k > n => bad.push(format!("seed {seed}: success although K > N")),
            Ok(Err(_)) => {}
            Ok(Ok(w)) => {
                hist[w] += 1;
                let others = (0..n).filter(|&i| i != w && vals[i] <= vals[w]).count();
                if others + 1 < k {
                    bad.push(format!("seed {seed}: winner position {w} (value {}) is at least as good as only {others} others, K = {k}", vals[w]));
                }
            }
        }
        if bad.len() > 8 {
            break;
        }
    }
    let _ = std::panic::take_hook();
    if bad.is_empty() && k <= n {
        let mut distinct: Vec<i64> = vals.clone();
        distinct.sort();
        distinct.dedup();
        for &t in &distinct {
            let got = (0..n).filter(|&i| vals[i] <= t).map(|i| hist[i]).sum::<usize>() as f64 / runs as f64;
            let m = vals.iter().filter(|&&v| v <= t).count();
            let want = comb(m, k) / comb(n, k);
            if (got - want).abs() > 0.03 {
                bad.push(format!("P(winner value <= {t}) = {got:.3} over {runs} seeds, the best of a uniform {k}-subset gives {want:.3}"));
            }
        }
    }
    println!("values {vals:?} identities {ids:?} K {k}: winners per position {hist:?}; {} deviations", bad.len());
    for b in bad.iter().take(6) {
        println!("  {b}");
    }
    assert!(bad.is_empty(), "tournament selection deviates");
}
