//! Native replay of a counterexample of bin/mirumad (C11 / C12): the real `Umad` operator, built by the constructor
//! named in UMAD_CTOR with the rates chosen by z3, mutates a parent of UMAD_L tagged genes with 40000 seeded
//! generators.  The test fails if a child is not "each parent gene in order, kept or deleted, each followed by at most
//! one new gene", or if the frequency of a per-gene outcome (deleted; new gene) or of a joint outcome vector differs
//! from the prescribed probability (d; a(1-d); product over the genes; e for an empty parent) by more than 0.02.
#![cfg(feature = "looprep")]
use ec_core::operator::mutator::Mutator;
use ec_linear::genome::vector::Vector;
use ec_linear::mutator::umad::Umad;
use rand::distr::Distribution;
use rand::rngs::StdRng;
use rand::{Rng, SeedableRng};
use std::cell::Cell;
use std::collections::HashMap;

struct NewGenes(Cell<i64>);
impl Distribution<i64> for NewGenes {
    fn sample<R: Rng + ?Sized>(&self, _rng: &mut R) -> i64 {
        let k = self.0.get();
        self.0.set(k + 1);
        -1 - k
    }
}

fn envf(name: &str, default: f64) -> f64 {
    std::env::var(name).ok().and_then(|s| s.parse().ok()).unwrap_or(default)
}

#[test]
fn umad_replay() {
    let (a, d, e) = (envf("UMAD_A", 0.5), envf("UMAD_D", 0.5), envf("UMAD_E", 0.25));
    let ctor = std::env::var("UMAD_CTOR").unwrap_or_else(|_| "new".into());
    let l: usize = std::env::var("UMAD_L").ok().and_then(|s| s.parse().ok()).unwrap_or(2);
    if std::env::var("UMAD_DETERMINISM").map(|s| s == "1").unwrap_or(false) {
        // two runs from equal generator states must give equal children and leave equal generator states
        let mut differ = 0;
        for seed in 0..512u64 {
            let run = |seed: u64| {
                let gen = NewGenes(Cell::new(0));
                let umad = match ctor.as_str() {
                    "new_with_empty_rate" => Umad::new_with_empty_rate(a, e, d, gen),
                    "new_without_empty" => Umad::new_without_empty(a, d, gen),
                    _ => Umad::new(a, d, gen),
                };
                let mut rng = StdRng::seed_from_u64(seed);
                let child = umad.mutate(Vector { genes: (0..l as i64).collect::<Vec<i64>>() }, &mut rng).unwrap().genes;
                (child, rng.random::<u64>())
            };
            if run(seed) != run(seed) {
                differ += 1;
            }
        }
        println!("ctor {ctor} L {l}: {differ} of 512 seeds give different results / generator states in two runs from the same seed");
        assert!(differ == 0, "UMAD is not a function of its arguments and the supplied generator");
        return;
    }
    let runs = 40000u64;
    let mut bad: Vec<String> = Vec::new();
    let mut child_counts: HashMap<Vec<i64>, u64> = HashMap::new();
    let mut empty_added = 0u64;
    for seed in 0..runs {
        let gen = NewGenes(Cell::new(0));
        let umad = match ctor.as_str() {
            "new_with_empty_rate" => Umad::new_with_empty_rate(a, e, d, gen),
            "new_without_empty" => Umad::new_without_empty(a, d, gen),
            _ => Umad::new(a, d, gen),
        };
        let parent = Vector { genes: (0..l as i64).collect::<Vec<i64>>() };
        let mut rng = StdRng::seed_from_u64(seed);
        let child = umad.mutate(parent, &mut rng).unwrap().genes;
        // structure: each parent gene at most once and in order, new genes -1, -2, .. in order, at most one new gene
        // between two parent positions
        let (mut pos, mut next_new) = (0usize, -1i64);
        for i in 0..=l as i64 {
            // slot i: [new gene belonging to parent position i-1]? then [parent gene i]?
            if i > 0 && pos < child.len() && child[pos] == next_new {
                pos += 1;
                next_new -= 1;
            }
            if i < l as i64 && pos < child.len() && child[pos] == i {
                pos += 1;
            }
        }
        if l == 0 && child.len() == 1 && child[0] == -1 {
            pos = 1;
            empty_added += 1;
        }
        if pos != child.len() {
            bad.push(format!("seed {seed}: child {child:?} does not have the prescribed structure"));
            if bad.len() > 5 {
                break;
            }
        }
        *child_counts.entry(child).or_insert(0) += 1;
    }
    let tol = 0.02;
    if bad.is_empty() {
        if l == 0 {
            let want = match ctor.as_str() {
                "new_with_empty_rate" => e,
                "new_without_empty" => 0.0,
                _ => a,
            };
            let got = empty_added as f64 / runs as f64;
            if (got - want).abs() > tol {
                bad.push(format!("an empty parent got a new gene with frequency {got:.3}, configured {want:.3}"));
            }
        } else {
            let p_new = a * (1.0 - d);
            for i in 0..l as i64 {
                let del = child_counts.iter().filter(|(c, _)| !c.contains(&i)).map(|(_, n)| *n).sum::<u64>() as f64 / runs as f64;
                if (del - d).abs() > tol {
                    bad.push(format!("gene {i}: deleted with frequency {del:.3}, prescribed {d:.3}"));
                }
            }
            let news = child_counts.iter().map(|(c, n)| c.iter().filter(|g| **g < 0).count() as f64 * *n as f64).sum::<f64>() / runs as f64;
            if (news - l as f64 * p_new).abs() > tol * l as f64 {
                bad.push(format!("mean number of new genes {news:.3}, prescribed L a(1-d) = {:.3}", l as f64 * p_new));
            }
            if l <= 3 {
                // the law of the child: sum the prescribed probabilities of the outcome vectors that give the same child
                let cells = [(true, true), (true, false), (false, true), (false, false)];
                let mut vecs: Vec<Vec<(bool, bool)>> = vec![vec![]];
                for _ in 0..l {
                    vecs = vecs.into_iter().flat_map(|v| cells.iter().map(move |c| { let mut w = v.clone(); w.push(*c); w })).collect();
                }
                let mut spec: HashMap<Vec<i64>, f64> = HashMap::new();
                for v in vecs {
                    let p: f64 = v.iter().map(|(k, n)| (if *k { 1.0 - d } else { d }) * (if *n { p_new } else { 1.0 - p_new })).product();
                    let mut ch = Vec::new();
                    let mut nn = -1i64;
                    for (i, (k, n)) in v.iter().enumerate() {
                        if *k { ch.push(i as i64); }
                        if *n { ch.push(nn); nn -= 1; }
                    }
                    *spec.entry(ch).or_insert(0.0) += p;
                }
                let mut keys: Vec<Vec<i64>> = spec.keys().cloned().chain(child_counts.keys().cloned()).collect();
                keys.sort();
                keys.dedup();
                for ch in keys {
                    let want = *spec.get(&ch).unwrap_or(&0.0);
                    let got = *child_counts.get(&ch).unwrap_or(&0) as f64 / runs as f64;
                    if (got - want).abs() > tol {
                        bad.push(format!("child {ch:?}: frequency {got:.3}, prescribed {want:.3}"));
                    }
                }
            }
        }
    }
    println!("ctor {ctor} a {a} d {d} e {e} L {l}: {} deviations", bad.len());
    for b in bad.iter().take(6) {
        println!("  {b}");
    }
    assert!(bad.is_empty(), "UMAD deviates");
}
