//! Native replay of a counterexample of bin/mirxo (C10 / C12 / C16): the real TwoPointXo / UniformXo in the form (array or
//! tuple of Vec genomes / of Bitstrings) and with the parent lengths of the counterexample.
//!   D1: two runs from equal generator states (400 seeds) must return equal children and leave equal generator states;
//!   D2-D5: over 4000 seeds: different lengths => Err, never a panic; the child is position-wise parental; two-point
//!   takes one contiguous segment from the second parent and every segment occurs; uniform: every mask occurs with
//!   frequency within 0.03 of 2^-L.
//! Prints REPLAY-VIOLATION and fails when the real code deviates.
#![cfg(feature = "looprep")]
use ec_core::operator::recombinator::Recombinator;
use ec_linear::genome::bitstring::Bitstring;
use ec_linear::recombinator::two_point_xo::TwoPointXo;
use ec_linear::recombinator::uniform_xo::UniformXo;
use rand::rngs::StdRng;
use rand::{RngCore, SeedableRng};
use std::collections::HashMap;
use std::panic::{catch_unwind, AssertUnwindSafe};

/// one recombination; Ok(Some(mask)) = child given as "position taken from the second parent", Ok(None) = Err returned
fn run(op: &str, form: &str, l1: usize, l2: usize, rng: &mut StdRng) -> Result<Option<Vec<bool>>, String> {
    let r = catch_unwind(AssertUnwindSafe(|| -> Result<Option<Vec<bool>>, String> {
        if form.starts_with("vec") {
            let a: Vec<u16> = (0..l1 as u16).collect();
            let b: Vec<u16> = (0..l2 as u16).map(|i| 1000 + i).collect();
            let child = match (op, form) {
                ("TwoPointXo", "vec") => TwoPointXo.recombine([a, b], rng).ok(),
                ("TwoPointXo", _) => TwoPointXo.recombine((a, b), rng).ok(),
                ("UniformXo", "vec") => UniformXo.recombine([a, b], rng).ok(),
                _ => UniformXo.recombine((a, b), rng).ok(),
            };
            match child {
                None => Ok(None),
                Some(c) => {
                    if c.len() != l1 {
                        return Err(format!("child of length {} from parents of length {l1}", c.len()));
                    }
                    let mut mask = Vec::new();
                    for (i, g) in c.iter().enumerate() {
                        if *g == i as u16 {
                            mask.push(false);
                        } else if *g == 1000 + i as u16 {
                            mask.push(true);
                        } else {
                            return Err(format!("gene {g} at position {i} belongs to neither parent at that position"));
                        }
                    }
                    Ok(Some(mask))
                }
            }
        } else {
            let a: Bitstring = std::iter::repeat(false).take(l1).collect();
            let b: Bitstring = std::iter::repeat(true).take(l2).collect();
            let child = match (op, form) {
                ("TwoPointXo", "gen") => TwoPointXo.recombine([a, b], rng).ok(),
                ("TwoPointXo", _) => TwoPointXo.recombine((a, b), rng).ok(),
                ("UniformXo", "gen") => UniformXo.recombine([a, b], rng).ok(),
                _ => UniformXo.recombine((a, b), rng).ok(),
            };
            match child {
                None => Ok(None),
                Some(c) => {
                    let bits: Vec<bool> = c.into_iter().collect();
                    if bits.len() != l1 {
                        return Err(format!("child of length {} from parents of length {l1}", bits.len()));
                    }
                    Ok(Some(bits))
                }
            }
        }
    }));
    match r {
        Ok(x) => x,
        Err(_) => Err("recombine panics".into()),
    }
}

#[test]
fn xo_replay() {
    let var = |k: &str| std::env::var(k).unwrap_or_default();
    let (op, form, label) = (var("XO_OP"), var("XO_FORM"), var("XO_LABEL"));
    if op.is_empty() {
        return;
    }
    let l1: usize = var("XO_L1").parse().unwrap();
    let l2: usize = var("XO_L2").parse().unwrap();
    std::panic::set_hook(Box::new(|_| {}));
    let mut problems: Vec<String> = Vec::new();
    if label == "D1" {
        let mut differ = 0;
        for seed in 0..400u64 {
            let (mut r1, mut r2) = (StdRng::seed_from_u64(seed), StdRng::seed_from_u64(seed));
            let (a, b) = (run(&op, &form, l1, l2, &mut r1), run(&op, &form, l1, l2, &mut r2));
            if a != b || r1.next_u64() != r2.next_u64() {
                differ += 1;
            }
        }
        if differ > 0 {
            problems.push(format!("{differ} of 400 pairs of runs from equal generator states differ"));
        }
    } else {
        let runs = 4000u64;
        let mut hist: HashMap<Vec<bool>, u64> = HashMap::new();
        for seed in 0..runs {
            let mut rng = StdRng::seed_from_u64(seed);
            match run(&op, &form, l1, l2, &mut rng) {
                Err(e) => {
                    problems.push(format!("seed {seed}: {e}"));
                    break;
                }
                Ok(None) => {
                    if l1 == l2 {
                        problems.push(format!("seed {seed}: equal-length parents rejected"));
                        break;
                    }
                }
                Ok(Some(mask)) => {
                    if l1 != l2 {
                        problems.push(format!("seed {seed}: parents of lengths {l1} and {l2} accepted"));
                        break;
                    }
                    if op == "TwoPointXo" {
                        let ones: Vec<usize> = (0..l1).filter(|i| mask[*i]).collect();
                        if !ones.is_empty() && ones[ones.len() - 1] - ones[0] + 1 != ones.len() {
                            problems.push(format!("seed {seed}: genes from the second parent are not one segment: {mask:?}"));
                            break;
                        }
                    }
                    *hist.entry(mask).or_insert(0) += 1;
                }
            }
        }
        if problems.is_empty() && l1 == l2 {
            if op == "TwoPointXo" {
                let want = l1 * (l1 + 1) / 2 + 1; // distinct masks: every non-empty segment, plus the empty one
                if hist.len() != want {
                    problems.push(format!("only {} of the {want} segment masks occur in {runs} seeded runs", hist.len()));
                }
            } else {
                let want = 1usize << l1;
                if hist.len() != want {
                    problems.push(format!("only {} of the {want} parent masks occur in {runs} seeded runs", hist.len()));
                }
                for (m, c) in &hist {
                    let f = *c as f64 / runs as f64;
                    if (f - 1.0 / want as f64).abs() > 0.03 {
                        problems.push(format!("mask {m:?} has frequency {f:.3}, prescribed {:.3}", 1.0 / want as f64));
                        break;
                    }
                }
            }
        }
    }
    let _ = std::panic::take_hook();
    for p in &problems {
        println!("REPLAY-VIOLATION: {op} ({form}) on parents of {l1} and {l2} genes: {p}");
    }
    assert!(problems.is_empty());
}
